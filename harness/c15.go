package hx

// C15 - JWT assertions are verified completely and each jti is accepted once.
//
// The harness builds real JWTs (go-jose: RS256 / PS256 / ES256 / ES384 / HS256 / alg none, any
// header and claim set), presents them to the real library
//   - fosite.AuthenticateClient                (private_key_jwt client assertion)
//   - provider.NewAccessRequest                (grant_type jwt-bearer, optionally with a client assertion)
// over storage.MemoryStore under the virtual clock of testing/synctest, and records for every
// operation the verdict (accept + client id + subject, or error name + status).  Facts that come
// from go-jose (does the compact JWS parse, typed claim values, under which keys of the pool the
// signature verifies) are computed here, independently of fosite, and handed to the Coq model.
// Three kinds of cases: histories (replays at random positions, clock jumps to the boundaries of
// exp), controlled interleavings of the storage calls of two or three simultaneous presentations
// of one assertion (every schedule), and free-running races.

import (
	"bytes"
	"context"
	"crypto/ecdsa"
	"crypto/ed25519"
	"crypto/elliptic"
	"crypto/rand"
	"crypto/rsa"
	"encoding/base64"
	"encoding/json"
	"fmt"
	"net/http/httptest"
	"net/url"
	"sort"
	"strings"
	"sync"
	"testing"
	"testing/synctest"
	"time"

	"github.com/go-jose/go-jose/v3"
	jjson "github.com/go-jose/go-jose/v3/json"
	josejwt "github.com/go-jose/go-jose/v3/jwt"

	"github.com/ory/fosite"
	"github.com/ory/fosite/compose"
	"github.com/ory/fosite/storage"
	"github.com/ory/fosite/token/jwt"
)

const (
	c15AssertionType = "urn:ietf:params:oauth:client-assertion-type:jwt-bearer"
	c15GrantType     = "urn:ietf:params:oauth:grant-type:jwt-bearer"
	c15Epoch         = int64(946684800) // synctest bubbles start at 2000-01-01T00:00:00Z
	c15TokenURL      = "https://as.example/token"
)

// ---------------------------------------------------------------- key pool
type c15Key struct {
	priv interface{}
	pub  interface{}
	kty  string // KRsa | KEc | KOther
}

var (
	c15PoolOnce sync.Once
	c15PoolKeys []c15Key
)

// pool: 0,1,2 RSA-2048; 3,4 P-256; 5 P-384; 6 Ed25519 (only ever registered, never used to sign)
func c15Pool() []c15Key {
	c15PoolOnce.Do(func() {
		for i := 0; i < 3; i++ {
			k, err := rsa.GenerateKey(rand.Reader, 2048)
			if err != nil {
				panic(err)
			}
			c15PoolKeys = append(c15PoolKeys, c15Key{k, &k.PublicKey, "KRsa"})
		}
		for i := 0; i < 2; i++ {
			k, _ := ecdsa.GenerateKey(elliptic.P256(), rand.Reader)
			c15PoolKeys = append(c15PoolKeys, c15Key{k, &k.PublicKey, "KEc"})
		}
		k, _ := ecdsa.GenerateKey(elliptic.P384(), rand.Reader)
		c15PoolKeys = append(c15PoolKeys, c15Key{k, &k.PublicKey, "KEc"})
		pub, priv, _ := ed25519.GenerateKey(rand.Reader)
		c15PoolKeys = append(c15PoolKeys, c15Key{priv, pub, "KOther"})
	})
	return c15PoolKeys
}

// ---------------------------------------------------------------- replayable description of a case
type C15JWK struct {
	Kid string `json:"kid"`
	Use string `json:"use"`
	KP  int    `json:"kp"`
}
type C15Client struct {
	ID      string   `json:"id"`
	OIDC    bool     `json:"oidc"`
	Method  string   `json:"method"`
	Alg     string   `json:"alg"`
	HasJWKS bool     `json:"has_jwks"`
	Keys    []C15JWK `json:"keys"`
	Grants  []string `json:"grants"`
}
type C15IKey struct {
	Iss    string   `json:"iss"`
	Sub    string   `json:"sub"`
	Kid    string   `json:"kid"`
	KP     int      `json:"kp"`
	Scopes []string `json:"scopes"`
}
type C15World struct {
	TUs      []string    `json:"token_urls"`
	Clients  []C15Client `json:"clients"`
	IKeys    []C15IKey   `json:"issuer_keys"`
	Skip     bool        `json:"can_skip_client_auth"`
	IDOpt    bool        `json:"jti_optional"`
	IatOpt   bool        `json:"iat_optional"`
	MaxMs    int64       `json:"max_duration_ms"`
	Strategy string      `json:"scope_strategy"`
}

// one JWT: either a literal string (Raw) or header + claim set + how it is signed
type C15Tok struct {
	Raw     *string  `json:"raw,omitempty"`
	Alg     string   `json:"alg"`
	Kid     string   `json:"kid"`
	Signer  int      `json:"signer"`            // index into the key pool; ignored for HS256 / none
	Tamper  int      `json:"tamper"`            // 0 none, 1 alter the signature, 2 swap in Payload2 after signing
	Payload string   `json:"payload"`           // JSON text of the claim set (any JSON)
	Pay2    string   `json:"payload2,omitempty"`
	JTI     string   `json:"jti,omitempty"`     // bookkeeping for the generator only
	Exp     int64    `json:"exp,omitempty"`     // bookkeeping for the generator only
}
type C15Op struct {
	Kind    string   `json:"kind"` // tick | auth | grant
	Ms      int64    `json:"ms,omitempty"`
	Type    string   `json:"client_assertion_type,omitempty"`
	FormCID string   `json:"client_id,omitempty"`
	CA      *C15Tok  `json:"client_assertion,omitempty"`
	Grant   *C15Tok  `json:"assertion,omitempty"`
	Scopes  []string `json:"scope,omitempty"`
}
type C15Case struct {
	World C15World `json:"world"`
	Ops   []C15Op  `json:"ops"`
	// race: the last operation is presented by N goroutines; Sched = nil: free-running
	RaceN int   `json:"race_n,omitempty"`
	Sched []int `json:"schedule,omitempty"`
	// results (for the reader of a replay file)
	Obs   []string `json:"observed,omitempty"`
	Final []string `json:"final_replay_memory,omitempty"`
}

// ---------------------------------------------------------------- building tokens
var c15TokCache sync.Map

var c15Signable = map[string]bool{"RS256": true, "RS384": true, "RS512": true, "PS256": true, "PS384": true, "PS512": true,
	"ES256": true, "ES384": true, "HS256": true, "HS384": true, "HS512": true}

func b64(b []byte) string { return base64.RawURLEncoding.EncodeToString(b) }

func c15Build(t *C15Tok) string {
	if t == nil {
		return ""
	}
	if t.Raw != nil {
		return *t.Raw
	}
	ck, _ := json.Marshal(t)
	if v, ok := c15TokCache.Load(string(ck)); ok {
		return v.(string)
	}
	pool := c15Pool()
	var out string
	switch {
	case !c15Signable[t.Alg]:
		hdr := map[string]interface{}{"alg": t.Alg, "typ": "JWT"}
		if t.Kid != "" {
			hdr["kid"] = t.Kid
		}
		hb, _ := json.Marshal(hdr)
		out = b64(hb) + "." + b64([]byte(t.Payload)) + "."
		if t.Alg != "none" {
			out += "AAAAAAAAAAAAAAAAAAAAAAAAAAAAAAAAAAAAAAAAAAA"
		}
	default:
		var key interface{}
		if strings.HasPrefix(t.Alg, "HS") {
			key = []byte("0123456789abcdef0123456789abcdef0123456789abcdef0123456789abcdef")
		} else {
			key = pool[t.Signer].priv
		}
		if t.Kid != "" {
			key = jose.JSONWebKey{Key: key, KeyID: t.Kid}
		}
		s, err := jose.NewSigner(jose.SigningKey{Algorithm: jose.SignatureAlgorithm(t.Alg), Key: key}, (&jose.SignerOptions{}).WithType("JWT"))
		if err != nil {
			panic(fmt.Sprintf("c15: cannot sign with alg %s signer %d: %v", t.Alg, t.Signer, err))
		}
		o, err := s.Sign([]byte(t.Payload))
		if err != nil {
			panic(err)
		}
		out, err = o.CompactSerialize()
		if err != nil {
			panic(err)
		}
	}
	switch t.Tamper {
	case 1:
		p := strings.Split(out, ".")
		if len(p) == 3 && len(p[2]) > 4 {
			b := []byte(p[2])
			if b[2] == 'A' {
				b[2] = 'B'
			} else {
				b[2] = 'A'
			}
			p[2] = string(b)
			out = strings.Join(p, ".")
		}
	case 2:
		p := strings.Split(out, ".")
		if len(p) == 3 {
			p[1] = b64([]byte(t.Pay2))
			out = strings.Join(p, ".")
		}
	}
	c15TokCache.Store(string(ck), out)
	return out
}

// ---------------------------------------------------------------- facts about a token (go-jose, not fosite)
type c15Facts struct {
	parse    bool // compact JWS parses
	mapOK    bool // payload decodes into a JSON object (MapClaims)
	claimsOK bool // payload decodes into go-jose's jwt.Claims
	alg, kid string
	ver      []int
	m        map[string]interface{}
	c        josejwt.Claims
}

var c15FactCache sync.Map

func c15FactsOf(raw string) *c15Facts {
	if v, ok := c15FactCache.Load(raw); ok {
		return v.(*c15Facts)
	}
	f := &c15Facts{}
	defer c15FactCache.Store(raw, f)
	tok, err := josejwt.ParseSigned(raw)
	if err != nil {
		return f
	}
	f.parse = true
	if len(tok.Headers) > 0 {
		f.alg = tok.Headers[0].Algorithm
		f.kid = tok.Headers[0].KeyID
	}
	parts := strings.Split(raw, ".")
	if len(parts) == 3 {
		if pb, err := base64.RawURLEncoding.DecodeString(parts[1]); err == nil {
			d := jjson.NewDecoder(bytes.NewReader(pb))
			d.SetNumberType(jjson.UnmarshalIntOrFloat)
			m := map[string]interface{}{}
			if err := d.Decode(&m); err == nil && m != nil {
				f.mapOK = true
				f.m = m
			}
		}
	}
	if err := tok.UnsafeClaimsWithoutVerification(&f.c); err == nil {
		f.claimsOK = true
	}
	for i, k := range c15Pool() {
		var sink map[string]interface{}
		if err := tok.Claims(k.pub, &sink); err == nil {
			f.ver = append(f.ver, i)
		}
	}
	return f
}

func c15JVal(m map[string]interface{}, k string) string {
	v, ok := m[k]
	if !ok {
		return "JAbsent"
	}
	switch t := v.(type) {
	case nil:
		return "JNull"
	case string:
		return "(JStr " + Q(t) + ")"
	case int64:
		return "(JInt " + Z(t) + ")"
	case float64:
		return "(JFloat " + Z(int64(t)) + ")"
	case bool:
		return "(JBool " + B(t) + ")"
	case []interface{}:
		items := make([]string, len(t))
		for i, it := range t {
			if s, ok := it.(string); ok {
				items[i] = "Some " + Q(s)
			} else {
				items[i] = "None"
			}
		}
		return "(JList " + L(items) + ")"
	default:
		return "JObj"
	}
}

func c15Nats(l []int) string {
	p := make([]string, len(l))
	for i, n := range l {
		p[i] = fmt.Sprint(n)
	}
	return L(p)
}

func c15OptZ(d *josejwt.NumericDate) string {
	if d == nil {
		return "None"
	}
	return "(Some " + Z(int64(*d)) + ")"
}

func c15CoqCA(typ, formCID string, t *C15Tok) string {
	raw := c15Build(t)
	ty := Q(typ)
	if typ == c15AssertionType {
		ty = "AT"
	}
	if raw == "" {
		return fmt.Sprintf("(CA0 %s true %s)", ty, Q(formCID))
	}
	f := c15FactsOf(raw)
	if !f.parse || !f.mapOK {
		return fmt.Sprintf("(CA0 %s false %s)", ty, Q(formCID))
	}
	return fmt.Sprintf("(CA %s %s %s %s %s %s %s %s %s %s %s %s)", ty, Q(formCID), Q(f.alg), Q(f.kid), c15Nats(f.ver),
		c15JVal(f.m, "iss"), c15JVal(f.m, "sub"), c15JVal(f.m, "aud"), c15JVal(f.m, "exp"), c15JVal(f.m, "iat"), c15JVal(f.m, "nbf"), c15JVal(f.m, "jti"))
}

func c15CoqBA(t *C15Tok, scopes []string) string {
	raw := c15Build(t)
	if raw == "" {
		return fmt.Sprintf("(BA0 true false false %s)", QL(scopes))
	}
	f := c15FactsOf(raw)
	if !f.parse {
		return fmt.Sprintf("(BA0 false false false %s)", QL(scopes))
	}
	if !f.claimsOK {
		return fmt.Sprintf("(BA0 false true false %s)", QL(scopes))
	}
	return fmt.Sprintf("(BA %s %s %s %s %s %s %s %s %s %s)", Q(f.kid), c15Nats(f.ver), Q(f.c.Issuer), Q(f.c.Subject), QL([]string(f.c.Audience)),
		c15OptZ(f.c.Expiry), c15OptZ(f.c.NotBefore), c15OptZ(f.c.IssuedAt), Q(f.c.ID), QL(scopes))
}

func c15CoqOp(o *C15Op) string {
	switch o.Kind {
	case "tick":
		return "OTick " + Z(o.Ms)
	case "auth":
		return "OAuth " + c15CoqCA(o.Type, o.FormCID, o.CA)
	default:
		ca := "None"
		if o.CA != nil {
			ca = "(Some " + c15CoqCA(o.Type, o.FormCID, o.CA) + ")"
		}
		return "OGrant " + ca + " " + c15CoqBA(o.Grant, o.Scopes)
	}
}

func c15CoqWorld(w *C15World, cls []fosite.Client) string {
	pool := c15Pool()
	cs := make([]string, len(w.Clients))
	for i, c := range w.Clients {
		method, alg := "", ""
		if oc, ok := cls[i].(fosite.OpenIDConnectClient); ok {
			method, alg = oc.GetTokenEndpointAuthMethod(), oc.GetTokenEndpointAuthSigningAlgorithm()
		}
		jw := "None"
		if c.OIDC && c.HasJWKS {
			ks := make([]string, len(c.Keys))
			for j, k := range c.Keys {
				ks[j] = fmt.Sprintf("JK %s %s %s %d", Q(k.Kid), Q(k.Use), pool[k.KP].kty, k.KP)
			}
			jw = "(Some " + L(ks) + ")"
		}
		cs[i] = fmt.Sprintf("CL %s %s %s %s %s %s", Q(c.ID), B(c.OIDC), Q(method), Q(alg), jw, QL(c.Grants))
	}
	iks := make([]string, len(w.IKeys))
	for i, k := range w.IKeys {
		iks[i] = fmt.Sprintf("IK %s %s %s %d %s", Q(k.Iss), Q(k.Sub), Q(k.Kid), k.KP, QL(k.Scopes))
	}
	strat := map[string]string{"exact": "SExact", "hierarchic": "SHierarchic", "wildcard": "SWildcard"}[w.Strategy]
	return fmt.Sprintf("(W %s %s %s (BC %s %s %s %s %s))", QL(w.TUs), L(cs), L(iks), B(w.Skip), B(w.IDOpt), B(w.IatOpt), Z(w.MaxMs), strat)
}

// ---------------------------------------------------------------- the real library
type c15Conf struct {
	*fosite.Config
	urls []string
}

func (c *c15Conf) GetTokenURLs(ctx context.Context) []string { return c.urls }

type c15TidKey struct{}

// store with yield points before/after the four jti calls (used for the controlled interleavings)
type c15Store struct {
	*storage.MemoryStore
	sch *c15Sched
}

func (s *c15Store) yield(ctx context.Context) func() {
	if s.sch == nil {
		return func() {}
	}
	tid, ok := ctx.Value(c15TidKey{}).(int)
	if !ok {
		return func() {}
	}
	s.sch.evt[tid] <- "call"
	<-s.sch.goc[tid]
	return func() { s.sch.evt[tid] <- "ret" }
}
func (s *c15Store) ClientAssertionJWTValid(ctx context.Context, jti string) error {
	defer s.yield(ctx)()
	return s.MemoryStore.ClientAssertionJWTValid(ctx, jti)
}
func (s *c15Store) SetClientAssertionJWT(ctx context.Context, jti string, exp time.Time) error {
	defer s.yield(ctx)()
	return s.MemoryStore.SetClientAssertionJWT(ctx, jti, exp)
}
func (s *c15Store) IsJWTUsed(ctx context.Context, jti string) (bool, error) {
	defer s.yield(ctx)()
	return s.MemoryStore.IsJWTUsed(ctx, jti)
}
func (s *c15Store) MarkJWTUsedForTime(ctx context.Context, jti string, exp time.Time) error {
	defer s.yield(ctx)()
	return s.MemoryStore.MarkJWTUsedForTime(ctx, jti, exp)
}

type c15Sched struct {
	evt []chan string
	goc []chan struct{}
}

type c15Sys struct {
	store *c15Store
	f     *fosite.Fosite
	cls   []fosite.Client
}

func c15Strategy(name string) fosite.ScopeStrategy {
	switch name {
	case "exact":
		return fosite.ExactScopeStrategy
	case "hierarchic":
		return fosite.HierarchicScopeStrategy
	}
	return fosite.WildcardScopeStrategy
}

func c15Clients(w *C15World) []fosite.Client {
	pool := c15Pool()
	out := make([]fosite.Client, len(w.Clients))
	for i, c := range w.Clients {
		// the clients' own registered scopes are broad: the JWT-bearer grant is confined by the SIGNING KEY's registration only
		dc := &fosite.DefaultClient{ID: c.ID, GrantTypes: append([]string{}, c.Grants...), Scopes: append([]string{"admin", "offline", "users.*", "a.*", "b.*"}, c15ScopePool...)}
		if !c.OIDC {
			out[i] = dc
			continue
		}
		oc := &fosite.DefaultOpenIDConnectClient{DefaultClient: dc, TokenEndpointAuthMethod: c.Method, TokenEndpointAuthSigningAlgorithm: c.Alg}
		if c.HasJWKS {
			set := &jose.JSONWebKeySet{}
			for _, k := range c.Keys {
				set.Keys = append(set.Keys, jose.JSONWebKey{Key: pool[k.KP].pub, KeyID: k.Kid, Use: k.Use})
			}
			oc.JSONWebKeys = set
		}
		out[i] = oc
	}
	return out
}

func c15NewSys(w *C15World) *c15Sys {
	pool := c15Pool()
	ms := storage.NewMemoryStore()
	st := &c15Store{MemoryStore: ms}
	cls := c15Clients(w)
	for _, c := range cls {
		ms.Clients[c.GetID()] = c
	}
	for _, k := range w.IKeys {
		ik, ok := ms.IssuerPublicKeys[k.Iss]
		if !ok {
			ik = storage.IssuerPublicKeys{Issuer: k.Iss, KeysBySub: map[string]storage.SubjectPublicKeys{}}
		}
		sk, ok := ik.KeysBySub[k.Sub]
		if !ok {
			sk = storage.SubjectPublicKeys{Subject: k.Sub, Keys: map[string]storage.PublicKeyScopes{}}
		}
		sk.Keys[k.Kid] = storage.PublicKeyScopes{Key: &jose.JSONWebKey{Key: pool[k.KP].pub, KeyID: k.Kid, Use: "sig"}, Scopes: append([]string{}, k.Scopes...)}
		ik.KeysBySub[k.Sub] = sk
		ms.IssuerPublicKeys[k.Iss] = ik
	}
	conf := &fosite.Config{
		GlobalSecret:                         []byte("0123456789abcdef0123456789abcdef-global"),
		ScopeStrategy:                        c15Strategy(w.Strategy),
		AudienceMatchingStrategy:             fosite.DefaultAudienceMatchingStrategy,
		GrantTypeJWTBearerCanSkipClientAuth:  w.Skip,
		GrantTypeJWTBearerIDOptional:         w.IDOpt,
		GrantTypeJWTBearerIssuedDateOptional: w.IatOpt,
		GrantTypeJWTBearerMaxDuration:        time.Duration(w.MaxMs) * time.Millisecond,
		SendDebugMessagesToClients:           true,
	}
	if len(w.TUs) == 1 {
		// the stock composition
		conf.TokenURL = w.TUs[0]
		prov := compose.ComposeAllEnabled(conf, st, theKey())
		return &c15Sys{store: st, f: prov.(*fosite.Fosite), cls: cls}
	}
	// several / no token URLs: same factories, configuration wrapped to answer GetTokenURLs
	wc := &c15Conf{Config: conf, urls: w.TUs}
	f := fosite.NewOAuth2Provider(st, wc)
	keyGetter := func(context.Context) (interface{}, error) { return theKey(), nil }
	strat := &compose.CommonStrategy{
		CoreStrategy:               compose.NewOAuth2HMACStrategy(conf),
		RFC8628CodeStrategy:        compose.NewDeviceStrategy(conf),
		OpenIDConnectTokenStrategy: compose.NewOpenIDConnectStrategy(keyGetter, conf),
		Signer:                     &jwt.DefaultSigner{GetPrivateKey: keyGetter},
	}
	for _, fac := range []compose.Factory{compose.OAuth2AuthorizeExplicitFactory, compose.OAuth2ClientCredentialsGrantFactory,
		compose.OAuth2RefreshTokenGrantFactory, compose.RFC7523AssertionGrantFactory, compose.OpenIDConnectExplicitFactory, compose.OAuth2PKCEFactory} {
		if th, ok := fac(wc, st, strat).(fosite.TokenEndpointHandler); ok {
			conf.TokenEndpointHandlers.Append(th)
		}
	}
	return &c15Sys{store: st, f: f, cls: cls}
}

func c15Obs(err error, client, subject string) (coq string, txt string) {
	if err == nil {
		return fmt.Sprintf("OAcc %s %s", Q(client), Q(subject)), "accept client=" + client + " subject=" + subject
	}
	e := fosite.ErrorToRFC6749Error(err)
	return fmt.Sprintf("ORej %s %s", Q(e.ErrorField), Z(int64(e.CodeField))), fmt.Sprintf("%s %d (%s)", e.ErrorField, e.CodeField, e.HintField)
}

func (s *c15Sys) exec(ctx context.Context, o *C15Op) (string, string, bool) {
	switch o.Kind {
	case "tick":
		if o.Ms > 0 {
			time.Sleep(time.Duration(o.Ms) * time.Millisecond)
		}
		return `OAcc "" ""`, "tick", false
	case "auth":
		form := url.Values{}
		if o.Type != "" {
			form.Set("client_assertion_type", o.Type)
		}
		form.Set("client_assertion", c15Build(o.CA))
		if o.FormCID != "" {
			form.Set("client_id", o.FormCID)
		}
		req := httptest.NewRequest("POST", "/token", strings.NewReader(form.Encode()))
		req.Header.Set("Content-Type", "application/x-www-form-urlencoded")
		cl, err := s.f.AuthenticateClient(ctx, req, form)
		id := ""
		if err == nil && cl != nil {
			id = cl.GetID()
		}
		c, t := c15Obs(err, id, "")
		return c, t, err == nil
	default:
		form := url.Values{}
		form.Set("grant_type", c15GrantType)
		form.Set("assertion", c15Build(o.Grant))
		if len(o.Scopes) > 0 {
			form.Set("scope", strings.Join(o.Scopes, " "))
		}
		if o.CA != nil {
			if o.Type != "" {
				form.Set("client_assertion_type", o.Type)
			}
			form.Set("client_assertion", c15Build(o.CA))
			if o.FormCID != "" {
				form.Set("client_id", o.FormCID)
			}
		}
		req := httptest.NewRequest("POST", "/token", strings.NewReader(form.Encode()))
		req.Header.Set("Content-Type", "application/x-www-form-urlencoded")
		ar, err := s.f.NewAccessRequest(ctx, req, &fosite.DefaultSession{})
		id, sub := "", ""
		if err == nil {
			id = ar.GetClient().GetID()
			sub = ar.GetSession().GetSubject()
		}
		c, t := c15Obs(err, id, sub)
		return c, t, err == nil
	}
}

func (s *c15Sys) finalStore() (string, []string) {
	type kv struct {
		j string
		e int64
	}
	var l []kv
	for j, e := range s.store.BlacklistedJTIs {
		l = append(l, kv{j, e.Unix()})
	}
	sort.Slice(l, func(a, b int) bool { return l[a].j < l[b].j })
	cs, ts := make([]string, len(l)), make([]string, len(l))
	for i, x := range l {
		cs[i] = fmt.Sprintf("(%s, %s)", Q(x.j), Z(x.e))
		ts[i] = fmt.Sprintf("%s until %d", x.j, x.e)
	}
	return L(cs), ts
}

// runs one case on the real library and renders it as a Coq term
func c15Run(t *testing.T, c *C15Case) Case {
	var coq string
	accepted, reachedJTI := 0, false
	synctest.Test(t, func(t *testing.T) {
		if time.Now().Unix() != c15Epoch {
			t.Fatalf("c15: bubble clock starts at %d, expected %d", time.Now().Unix(), c15Epoch)
		}
		sys := c15NewSys(&c.World)
		ctx := context.Background()
		world := c15CoqWorld(&c.World, sys.cls)
		t0 := Z(c15Epoch * 1000)
		c.Obs = nil
		nSeq := len(c.Ops)
		if c.RaceN > 0 {
			nSeq--
		}
		steps := make([]string, 0, nSeq)
		for i := 0; i < nSeq; i++ {
			ob, txt, ok := sys.exec(ctx, &c.Ops[i])
			if ok && c.Ops[i].Kind != "tick" {
				accepted++
			}
			if strings.Contains(ob, "jti_known") {
				reachedJTI = true
			}
			c.Obs = append(c.Obs, txt)
			steps = append(steps, "("+c15CoqOp(&c.Ops[i])+", "+ob+")")
		}
		if c.RaceN == 0 {
			fin, ftxt := sys.finalStore()
			c.Final = ftxt
			coq = fmt.Sprintf("KHist %s %s %s %s", world, t0, L(steps), fin)
			return
		}
		last := &c.Ops[len(c.Ops)-1]
		n := c.RaceN
		res := make([]string, n)
		txts := make([]string, n)
		oks := make([]bool, n)
		if c.Sched != nil {
			sch := &c15Sched{evt: make([]chan string, n), goc: make([]chan struct{}, n)}
			for i := 0; i < n; i++ {
				sch.evt[i] = make(chan string)
				sch.goc[i] = make(chan struct{})
			}
			sys.store.sch = sch
			for i := 0; i < n; i++ {
				go func(i int) {
					res[i], txts[i], oks[i] = sys.exec(context.WithValue(ctx, c15TidKey{}, i), last)
					sch.evt[i] <- "end"
				}(i)
			}
			state := make([]string, n)
			for i := 0; i < n; i++ {
				state[i] = <-sch.evt[i]
			}
			stepThread := func(i int) {
				if i < 0 || i >= n || state[i] != "call" {
					return
				}
				sch.goc[i] <- struct{}{}
				if r := <-sch.evt[i]; r != "ret" {
					t.Fatalf("c15: scheduler protocol: expected ret, got %s", r)
				}
				state[i] = <-sch.evt[i]
			}
			for _, i := range c.Sched {
				stepThread(i)
			}
			for i := 0; i < n; i++ { // drain (schedules are complete, so this is normally a no-op)
				for state[i] == "call" {
					stepThread(i)
				}
			}
			sys.store.sch = nil
		} else {
			var wg sync.WaitGroup
			startc := make(chan struct{})
			for i := 0; i < n; i++ {
				wg.Add(1)
				go func(i int) {
					defer wg.Done()
					<-startc
					res[i], txts[i], oks[i] = sys.exec(ctx, last)
				}(i)
			}
			close(startc)
			wg.Wait()
		}
		for i := 0; i < n; i++ {
			if oks[i] {
				accepted++
			}
			c.Obs = append(c.Obs, fmt.Sprintf("thread %d: %s", i, txts[i]))
		}
		_, c.Final = sys.finalStore()
		if c.Sched != nil {
			coq = fmt.Sprintf("KSched %s %s %s (%s) %s %s", world, t0, L(steps), c15CoqOp(last), c15Nats(c.Sched), L(res))
		} else {
			coq = fmt.Sprintf("KFree %s %s %s (%s) %s", world, t0, L(steps), c15CoqOp(last), L(res))
		}
	})
	return Case{Coq: coq, Replay: c, NonTrivial: accepted > 0 || reachedJTI, Key: coq}
}

// ---------------------------------------------------------------- generation
type c15Gen struct {
	r    *RNG
	w    C15World
	now  int64 // virtual clock, ms since the epoch of the bubble
	ops  []C15Op
	njti int
	past []int // indices of earlier auth/grant ops (candidates for replay)
}

func (g *c15Gen) nowS() int64 { return c15Epoch + g.now/1000 }

var c15ScopePool = []string{"photos", "users.read", "users.write", "a.b.c", "offline", "users", "a"}

func c15GenWorld(r *RNG, adversarial bool) C15World {
	w := C15World{TUs: []string{c15TokenURL}, Strategy: Pick(r, []string{"wildcard", "exact", "hierarchic"})}
	if r.Chance(12) {
		w.TUs = []string{"https://old.example/token", c15TokenURL}
	}
	if adversarial && r.Chance(4) {
		w.TUs = Pick(r, [][]string{{}, {""}})
	}
	// client c0: RSA, c1: EC; variations only in the adversarial stream
	rsAlg := Pick(r, []string{"RS256", "RS256", "PS256", "", "RS384"})
	c0 := C15Client{ID: "c0", OIDC: true, Method: "private_key_jwt", Alg: rsAlg, HasJWKS: true,
		Keys: []C15JWK{{"k0", "sig", 0}, {"k1", "sig", 1}}, Grants: []string{"client_credentials", c15GrantType}}
	if r.Chance(30) {
		c0.Keys = append(c0.Keys, C15JWK{"e9", "sig", 4})
	}
	c1 := C15Client{ID: "c1", OIDC: true, Method: "private_key_jwt", Alg: "ES256", HasJWKS: true,
		Keys: []C15JWK{{"e0", "sig", 3}}, Grants: []string{"client_credentials"}}
	if r.Chance(30) {
		c1.Keys = []C15JWK{{"r9", "sig", 1}, {"e0", "sig", 3}}
	}
	if r.Chance(15) {
		c1.Alg = "ES384"
		c1.Keys = []C15JWK{{"e5", "sig", 5}}
	}
	if r.Chance(50) {
		c1.Grants = append(c1.Grants, Pick(r, []string{c15GrantType, strings.ToUpper(c15GrantType)}))
	}
	if adversarial {
		switch r.Intn(10) {
		case 0:
			c0.Method = Pick(r, []string{"client_secret_basic", "client_secret_post", "none", "client_secret_jwt", ""})
		case 1:
			c0.Alg = Pick(r, []string{"HS256", "none", "ES256", "EdDSA"})
		case 2:
			c0.Keys[0].Use = Pick(r, []string{"enc", ""})
		case 3:
			c0.HasJWKS = false
		case 4:
			c0.Keys = []C15JWK{}
		case 5:
			c0.Keys = []C15JWK{{"k0", "sig", 6}, {"k0", "sig", 0}} // same kid twice, first of another type
		case 6:
			c0.Keys = []C15JWK{{"k0", "enc", 1}, {"k0", "sig", 0}, {"k1", "sig", 1}}
		case 7:
			c0.OIDC = false
		}
	}
	w.Clients = []C15Client{c0, c1}
	if r.Chance(40) {
		w.Clients = append(w.Clients, C15Client{ID: "c2", OIDC: true, Method: Pick(r, []string{"client_secret_basic", "none", "private_key_jwt"}),
			Alg: "RS256", HasJWKS: true, Keys: []C15JWK{{"k0", "sig", 2}}, Grants: []string{"client_credentials"}})
	}
	// issuer keys for the bearer grant
	var sc []string
	switch w.Strategy {
	case "wildcard":
		sc = []string{"photos", "users.*", "a.*"}
	case "hierarchic":
		sc = []string{"photos", "users", "a.b"}
	default:
		sc = []string{"photos", "users.read", "a.b.c"}
	}
	w.IKeys = []C15IKey{
		{"https://idp.example", "alice", "ik0", 0, sc},
		{"https://idp.example", "alice", "ik1", 3, []string{"photos"}},
		{"https://idp.example", "bob", "ik0", 1, sc},
		{"https://other-idp.example", "alice", "ok0", 2, []string{}},
	}
	w.Skip = !r.Chance(25)
	w.IDOpt = r.Chance(30)
	w.IatOpt = r.Chance(40)
	w.MaxMs = Pick(r, []int64{0, 3600000, 60000, 5000})
	return w
}

type c15Claims struct {
	keys []string
	vals map[string]interface{}
}

func (c *c15Claims) set(k string, v interface{}) {
	if _, ok := c.vals[k]; !ok {
		c.keys = append(c.keys, k)
	}
	c.vals[k] = v
}
func (c *c15Claims) del(k string) {
	if _, ok := c.vals[k]; ok {
		delete(c.vals, k)
		for i, x := range c.keys {
			if x == k {
				c.keys = append(c.keys[:i], c.keys[i+1:]...)
				break
			}
		}
	}
}
func (c *c15Claims) json() string {
	var b strings.Builder
	b.WriteString("{")
	for i, k := range c.keys {
		if i > 0 {
			b.WriteString(",")
		}
		kb, _ := json.Marshal(k)
		vb, err := json.Marshal(c.vals[k])
		if err != nil {
			vb = []byte("null")
		}
		b.Write(kb)
		b.WriteString(":")
		b.Write(vb)
	}
	b.WriteString("}")
	return b.String()
}

func (g *c15Gen) freshJTI() string {
	g.njti++
	return fmt.Sprintf("j%d", g.njti)
}

// boundary and type variants of a time claim around the current second
func (g *c15Gen) timeVariant(base int64) interface{} {
	r := g.r
	switch r.Intn(16) {
	case 0:
		return nil
	case 1:
		return fmt.Sprint(base + 60)
	case 2:
		return true
	case 3:
		return int64(0)
	case 4:
		return 0.5
	case 5:
		return int64(-5)
	case 6:
		return base - 1
	case 7:
		return base
	case 8:
		return base + 1
	case 9:
		return float64(base) + 0.5
	case 10:
		return 1e30
	case 11:
		return int64(1) << 62
	case 12:
		return base - 3600
	case 13:
		return []interface{}{base + 60}
	case 14:
		return float64(base + 30)
	default:
		return base + 86400*365
	}
}

func (g *c15Gen) audVariant(right string) interface{} {
	r := g.r
	switch r.Intn(16) {
	case 14:
		return []interface{}{right + "/"}
	case 15:
		return []interface{}{right + "x", "https://api.example"}
	case 0:
		return "https://evil.example/token"
	case 1:
		return []interface{}{right}
	case 2:
		return []interface{}{"https://api.example", right}
	case 3:
		return []interface{}{"https://api.example"}
	case 4:
		return []interface{}{1, right}
	case 5:
		return []interface{}{}
	case 6:
		return 7
	case 7:
		return right + "/"
	case 8:
		return strings.ToUpper(right)
	case 9:
		return nil
	case 10:
		return ""
	case 11:
		return []interface{}{[]interface{}{right}}
	case 12:
		return "https://old.example/token"
	default:
		return right
	}
}

func (g *c15Gen) strVariant(right string, others []string) interface{} {
	r := g.r
	switch r.Intn(8) {
	case 0:
		return Pick(r, others)
	case 1:
		return ""
	case 2:
		return 12
	case 3:
		return []interface{}{right}
	case 4:
		return nil
	case 5:
		return right + " "
	case 6:
		return strings.ToUpper(right)
	default:
		return Pick(r, others)
	}
}

func (g *c15Gen) tu() string {
	if len(g.w.TUs) == 0 {
		return c15TokenURL
	}
	return g.w.TUs[g.r.Intn(len(g.w.TUs))]
}

// a client assertion for client ci that is valid unless the world says otherwise; nmut mutations
func (g *c15Gen) clientAssertion(ci int, nmut int) (typ, formCID string, tok *C15Tok) {
	r := g.r
	pool := c15Pool()
	c := g.w.Clients[ci]
	alg := c.Alg
	if alg == "" {
		alg = "RS256"
	}
	// a registered key that fits the algorithm (else any key of the family: the assertion is then invalid anyway)
	wantEC := strings.HasPrefix(alg, "ES")
	signer, kid := -1, ""
	for _, k := range c.Keys {
		fits := wantEC == (pool[k.KP].kty == "KEc") && pool[k.KP].kty != "KOther"
		if alg == "ES256" && k.KP == 5 || alg == "ES384" && k.KP != 5 {
			fits = false
		}
		if fits && (signer < 0 || r.Chance(40)) {
			signer, kid = k.KP, k.Kid
		}
	}
	if signer < 0 {
		kid = "k0"
		switch {
		case alg == "ES384":
			signer = 5
		case wantEC:
			signer = 3
		default:
			signer = 0
		}
	}
	cl := &c15Claims{vals: map[string]interface{}{}}
	now := g.nowS()
	cl.set("iss", c.ID)
	cl.set("sub", c.ID)
	if r.Chance(25) {
		cl.set("aud", []interface{}{g.tu()})
	} else {
		cl.set("aud", g.tu())
	}
	exp := now + Pick(r, []int64{1, 2, 5, 30, 60, 300, 3600})
	cl.set("exp", exp)
	if r.Chance(40) {
		cl.set("iat", now-int64(r.Intn(3)))
	}
	if r.Chance(20) {
		cl.set("nbf", now-int64(r.Intn(3)))
	}
	jti := g.freshJTI()
	cl.set("jti", jti)
	typ = c15AssertionType
	if r.Chance(50) {
		formCID = c.ID
	}
	if r.Chance(20) { // first key of the right type is tried when there is no kid
		kid = ""
	}
	tok = &C15Tok{Alg: alg, Kid: kid, Signer: signer}
	others := []string{"c0", "c1", "c2", "nobody", "https://idp.example"}
	for m := 0; m < nmut; m++ {
		switch r.Intn(24) {
		case 22, 23: // the registered key, but another algorithm of its family than the registered one
			if pool[tok.Signer].kty == "KRsa" && c15Signable[tok.Alg] {
				tok.Alg = Pick(r, []string{"RS256", "PS256", "RS384", "RS512", "PS384"})
			}
		case 0:
			typ = Pick(r, []string{"urn:ietf:params:oauth:client-assertion-type:saml2-bearer", "jwt-bearer", c15AssertionType + " "})
		case 1:
			formCID = Pick(r, []string{"", c.ID, "c0", "c1", "c2", "nobody"})
		case 2:
			tok.Alg = Pick(r, []string{"RS256", "PS256", "ES256", "HS256", "none", "RS384", "HS512", "Xyz"})
			if strings.HasPrefix(tok.Alg, "ES") {
				tok.Signer = Pick(r, []int{3, 4})
			} else {
				tok.Signer = Pick(r, []int{0, 1, 2})
			}
		case 3:
			tok.Kid = Pick(r, []string{"", "zzz", "k0", "k1", "e0", "k0 "})
		case 4: // another key of the same family: registered for this client, for another client, or for nobody
			if pool[tok.Signer].kty == "KRsa" {
				tok.Signer = Pick(r, []int{0, 1, 2})
			} else if tok.Signer != 5 {
				tok.Signer = Pick(r, []int{3, 4})
			}
		case 5:
			tok.Tamper = 1
		case 6:
			tok.Tamper = 2
		case 7:
			cl.set("iss", g.strVariant(c.ID, others))
		case 8:
			cl.set("sub", g.strVariant(c.ID, others))
		case 9:
			cl.del(Pick(r, []string{"iss", "sub", "aud", "exp", "jti"}))
		case 10, 11:
			cl.set("aud", g.audVariant(g.tu()))
		case 12, 13, 14:
			v := g.timeVariant(now)
			cl.set("exp", v)
		case 15:
			cl.set("iat", g.timeVariant(now))
		case 16:
			cl.set("nbf", g.timeVariant(now))
		case 17:
			cl.set("jti", Pick(r, []interface{}{"", 5, nil, []interface{}{"j"}, true}))
		case 18:
			if g.njti > 1 {
				cl.set("jti", fmt.Sprintf("j%d", 1+r.Intn(g.njti)))
			}
		case 19:
			s := Pick(r, []string{"", "abc", "a.b.c", "e30.e30.", b64([]byte(`{"alg":"RS256"}`)) + "." + b64([]byte(`[1,2]`)) + ".AAAA", b64([]byte(`{"alg":"RS256"}`)) + "." + b64([]byte(`"str"`)) + ".AAAA"})
			tok.Raw = &s
		case 20:
			cl.set("exp", now) // expires within this second
		case 21:
			cl.set("exp", int64(0))
		}
	}
	tok.Payload = cl.json()
	if tok.Tamper == 2 {
		cl.set("sub", Pick(r, []string{"c0", "c1", "admin"}))
		cl.set("iss", cl.vals["sub"])
		tok.Pay2 = cl.json()
	}
	if j, ok := cl.vals["jti"].(string); ok {
		tok.JTI = j
	}
	if e, ok := cl.vals["exp"].(int64); ok {
		tok.Exp = e
	}
	return
}

func (g *c15Gen) requestScopes(reg []string) []string {
	r := g.r
	var cand []string
	for _, s := range reg {
		cand = append(cand, strings.ReplaceAll(s, "*", Pick(r, []string{"read", "write", "x"})))
	}
	out := []string{}
	for _, s := range cand {
		if r.Chance(50) {
			out = append(out, s)
		}
	}
	return out
}

// a JWT-bearer grant assertion for issuer key ki, valid unless mutated
func (g *c15Gen) grantAssertion(ki int, nmut int) (tok *C15Tok, scopes []string) {
	r := g.r
	pool := c15Pool()
	k := g.w.IKeys[ki]
	now := g.nowS()
	alg := "RS256"
	if pool[k.KP].kty == "KEc" {
		alg = "ES256"
	} else if r.Chance(25) {
		alg = "PS256"
	}
	cl := &c15Claims{vals: map[string]interface{}{}}
	cl.set("iss", k.Iss)
	cl.set("sub", k.Sub)
	if r.Chance(40) {
		cl.set("aud", []interface{}{"https://api.example", g.tu()})
	} else {
		cl.set("aud", g.tu())
	}
	maxS := g.w.MaxMs / 1000
	if maxS == 0 {
		maxS = 86400
	}
	life := Pick(r, []int64{1, 2, 4, 30, 50, 300, 3000})
	if life > maxS {
		life = maxS
	}
	exp := now + life
	cl.set("exp", exp)
	if !g.w.IatOpt || r.Chance(60) {
		cl.set("iat", now)
	}
	if r.Chance(25) {
		cl.set("nbf", now-1-int64(r.Intn(3)))
	}
	if !g.w.IDOpt || r.Chance(70) {
		cl.set("jti", g.freshJTI())
	}
	kid := k.Kid
	if r.Chance(30) {
		kid = ""
	}
	tok = &C15Tok{Alg: alg, Kid: kid, Signer: k.KP}
	scopes = g.requestScopes(k.Scopes)
	others := []string{"https://idp.example", "https://other-idp.example", "alice", "bob", "mallory"}
	for m := 0; m < nmut; m++ {
		switch r.Intn(22) {
		case 0:
			cl.set("iss", g.strVariant(k.Iss, others))
		case 1:
			cl.set("sub", g.strVariant(k.Sub, others))
		case 2:
			tok.Kid = Pick(r, []string{"", "zzz", "ik0", "ik1", "ok0"})
		case 3:
			if pool[tok.Signer].kty == "KRsa" {
				tok.Signer = Pick(r, []int{0, 1, 2})
			} else {
				tok.Signer = Pick(r, []int{3, 4})
			}
		case 4:
			tok.Alg = Pick(r, []string{"none", "HS256", "PS256", "RS256", "ES256"})
			if strings.HasPrefix(tok.Alg, "ES") {
				tok.Signer = Pick(r, []int{3, 4})
			} else {
				tok.Signer = Pick(r, []int{0, 1, 2})
			}
		case 5:
			tok.Tamper = 1 + r.Intn(2)
		case 6, 7:
			cl.set("aud", g.audVariant(g.tu()))
		case 8, 9:
			cl.set("exp", g.timeVariant(now))
		case 10: // around the maximum duration
			base := now
			if v, ok := cl.vals["iat"].(int64); ok {
				base = v
			}
			cl.set("exp", base+maxS+int64(r.Intn(3))-1)
		case 11:
			cl.set("iat", Pick(r, []interface{}{now - maxS, now - maxS - 1, now + 5, nil, "x", int64(0), now - 1}))
		case 12:
			cl.del("iat")
		case 13:
			cl.set("nbf", Pick(r, []interface{}{now, now + 1, now - 1, now + 3600, int64(0), "soon"}))
		case 14:
			cl.del(Pick(r, []string{"iss", "sub", "aud", "exp", "jti"}))
		case 15:
			cl.set("jti", Pick(r, []interface{}{"", 5, nil}))
		case 16:
			if g.njti > 1 {
				cl.set("jti", fmt.Sprintf("j%d", 1+r.Intn(g.njti)))
			}
		case 17:
			scopes = append(scopes, Pick(r, c15ScopePool))
		case 18:
			scopes = []string{Pick(r, c15ScopePool), Pick(r, c15ScopePool)}
		case 19:
			s := Pick(r, []string{"", "abc", "a.b.c", b64([]byte(`{"alg":"RS256"}`)) + "." + b64([]byte(`[1,2]`)) + ".AAAA"})
			tok.Raw = &s
		case 20:
			cl.set("exp", now)
		case 21:
			cl.set("exp", now-1)
		}
	}
	tok.Payload = cl.json()
	if tok.Tamper == 2 {
		cl.set("sub", Pick(r, []string{"alice", "bob", "admin"}))
		tok.Pay2 = cl.json()
	}
	if j, ok := cl.vals["jti"].(string); ok {
		tok.JTI = j
	}
	if e, ok := cl.vals["exp"].(int64); ok {
		tok.Exp = e
	}
	return
}

func (g *c15Gen) tick(ms int64) {
	if ms <= 0 {
		return
	}
	g.ops = append(g.ops, C15Op{Kind: "tick", Ms: ms})
	g.now += ms
}

func (g *c15Gen) nmut(adversarial bool) int {
	if adversarial {
		return 1 + g.r.Intn(3)
	}
	if g.r.Chance(35) {
		return 1
	}
	return 0
}

func (g *c15Gen) addAuth(adversarial bool) {
	ci := g.r.Intn(2)
	typ, cid, tok := g.clientAssertion(ci, g.nmut(adversarial))
	g.past = append(g.past, len(g.ops))
	g.ops = append(g.ops, C15Op{Kind: "auth", Type: typ, FormCID: cid, CA: tok})
}

func (g *c15Gen) addGrant(adversarial bool) {
	ki := g.r.Intn(len(g.w.IKeys))
	tok, scopes := g.grantAssertion(ki, g.nmut(adversarial))
	op := C15Op{Kind: "grant", Grant: tok, Scopes: scopes}
	if !g.w.Skip && g.r.Chance(85) || g.r.Chance(15) {
		typ, cid, ca := g.clientAssertion(g.r.Intn(2), g.nmut(adversarial && g.r.Chance(40)))
		op.Type, op.FormCID, op.CA = typ, cid, ca
		if g.r.Chance(5) && tok.Raw == nil && ca.Raw == nil { // one JWT used both as client assertion and as grant
			op.Grant = ca
		}
	}
	g.past = append(g.past, len(g.ops))
	g.ops = append(g.ops, op)
}

// present an earlier operation again, possibly after moving the clock to a boundary of its exp
func (g *c15Gen) addReplay() {
	if len(g.past) == 0 {
		g.addAuth(false)
		return
	}
	r := g.r
	src := g.ops[g.past[r.Intn(len(g.past))]]
	tok := src.CA
	if src.Kind == "grant" {
		tok = src.Grant
	}
	if tok != nil && tok.Exp > 0 && r.Chance(55) {
		target := (tok.Exp-c15Epoch)*1000 + Pick(r, []int64{-1000, -1, 0, 1, 500, 999, 1000, 1001, -500})
		if target > g.now && target-g.now < 4000000 {
			g.tick(target - g.now)
		}
	} else if r.Chance(30) {
		g.tick(Pick(r, []int64{1, 250, 1000, 1500, 30000}))
	}
	g.past = append(g.past, len(g.ops))
	g.ops = append(g.ops, src)
}

func c15GenHistory(r *RNG, adversarial bool, minOps, maxOps int) *C15Case {
	g := &c15Gen{r: r, w: c15GenWorld(r, adversarial)}
	if r.Chance(50) {
		g.tick(int64(r.Intn(2000)))
	}
	n := minOps + r.Intn(maxOps-minOps+1)
	for len(g.ops) < n {
		switch x := r.Intn(100); {
		case x < 30:
			g.addAuth(adversarial)
		case x < 55:
			g.addGrant(adversarial)
		case x < 80:
			g.addReplay()
		default:
			g.tick(Pick(r, []int64{1, 400, 999, 1000, 1001, 2000, 5000, 60000, 0}))
		}
	}
	return &C15Case{World: g.w, Ops: g.ops}
}

// all interleavings of n threads with two steps each
func c15Schedules(n int) [][]int {
	var out [][]int
	left := make([]int, n)
	for i := range left {
		left[i] = 2
	}
	var rec func(cur []int)
	rec = func(cur []int) {
		if len(cur) == 2*n {
			out = append(out, append([]int{}, cur...))
			return
		}
		for i := 0; i < n; i++ {
			if left[i] > 0 {
				left[i]--
				rec(append(cur, i))
				left[i]++
			}
		}
	}
	rec(nil)
	return out
}

// a short prefix and then one operation to be raced
func c15GenRaceBase(r *RNG, kind int) *C15Case {
	g := &c15Gen{r: r, w: c15GenWorld(r, false)}
	g.w.Skip = true
	if r.Chance(40) {
		g.tick(int64(r.Intn(1500)))
	}
	if r.Chance(30) {
		g.addAuth(false)
	}
	switch kind {
	case 0: // valid client assertion
		typ, cid, tok := g.clientAssertion(r.Intn(2), 0)
		g.ops = append(g.ops, C15Op{Kind: "auth", Type: typ, FormCID: cid, CA: tok})
	case 1: // valid grant
		tok, scopes := g.grantAssertion(r.Intn(3), 0)
		g.ops = append(g.ops, C15Op{Kind: "grant", Grant: tok, Scopes: scopes})
	case 2: // client assertion with one mutation
		typ, cid, tok := g.clientAssertion(r.Intn(2), 1)
		g.ops = append(g.ops, C15Op{Kind: "auth", Type: typ, FormCID: cid, CA: tok})
	default: // grant with one mutation
		tok, scopes := g.grantAssertion(r.Intn(3), 1)
		g.ops = append(g.ops, C15Op{Kind: "grant", Grant: tok, Scopes: scopes})
	}
	return &C15Case{World: g.w, Ops: g.ops}
}

func init() { Register("C15", runC15) }

func runC15(t *testing.T, e Env) {
	out := NewOut(e.Out, "Cases.CasesC15", "c15case", "check", 60)
	if e.Replay != nil {
		var c C15Case
		if err := json.Unmarshal(e.Replay, &c); err != nil {
			t.Fatal(err)
		}
		out.Add(c15Run(t, &c))
		if err := out.Flush("replay"); err != nil {
			t.Fatal(err)
		}
		return
	}
	r := NewRNG(e.Seed)
	nShort, nLong, nAdv, nSchedBases, nFree := 700, 400, 700, 5, 150
	if e.Tier == "thorough" {
		nShort, nLong, nAdv, nSchedBases, nFree = 9000, 6000, 9000, 60, 3000
	}
	add := func(c *C15Case, kind string) {
		cs := c15Run(t, c)
		out.Add(cs)
		out.Count(kind)
		for _, o := range c.Obs {
			if i := strings.Index(o, " ("); i > 0 {
				o = o[:i]
			}
			if strings.HasPrefix(o, "accept") {
				o = "accept"
			}
			if strings.HasPrefix(o, "thread") {
				continue
			}
			out.Count("verdict:" + o)
		}
	}
	for i := 0; i < nShort; i++ {
		add(c15GenHistory(r.Fork(), false, 1, 4), "history-short-mostly-valid")
	}
	for i := 0; i < nLong; i++ {
		add(c15GenHistory(r.Fork(), false, 6, 16), "history-long-replays")
	}
	for i := 0; i < nAdv; i++ {
		add(c15GenHistory(r.Fork(), true, 1, 5), "history-adversarial")
	}
	for i := 0; i < nSchedBases; i++ {
		base := c15GenRaceBase(r.Fork(), i%4)
		for _, n := range []int{2, 3} {
			for _, s := range c15Schedules(n) {
				c := *base
				c.RaceN, c.Sched = n, s
				add(&c, fmt.Sprintf("interleaving-%d-threads", n))
			}
		}
	}
	for i := 0; i < nFree; i++ {
		c := c15GenRaceBase(r.Fork(), Pick(r, []int{0, 0, 1, 1, 2, 3}))
		c.RaceN = 2 + r.Intn(3)
		add(c, "race-free-running")
	}
	out.Notes["interleavings"] = "for every race base all 6 (two threads) and all 90 (three threads) orders of the storage calls [jti valid?; test-and-set] are executed with yield points in a store wrapper"
	if err := out.Flush("seeded histories of client-assertion / jwt-bearer presentations (valid baseline with 0-3 mutations of header, key, claims, types, boundary times; replays at random positions; clock jumps to exp-1s..exp+1s), all interleavings of the two storage calls of 2 and 3 simultaneous presentations, free-running races of 2-4 goroutines. non-trivial = at least one presentation was accepted or reached the jti check; distinct by the full case term"); err != nil {
		t.Fatal(err)
	}
}

