package hx

// C10 — client authentication guards every client-authenticated endpoint.
//
// Every case builds a fresh storage.MemoryStore with two registrations (the target "T" and a second
// client "O"), composes the real provider (compose.ComposeAllEnabled), sends ONE request to one of the
// four endpoints (token with a grant type, revocation, PAR, device authorization) and records
//   - the verdict of New*Request, the client in whose name the request was processed, which handlers
//     the request phase called (logging wrappers around the composed handlers) and what they answered,
//   - the verdict after the response phase, and whether any code / token / session table of the store
//     differs from before the request (fingerprint over the exported maps of MemoryStore).
// Independent of fosite the harness computes what the model takes as data: r.BasicAuth() and
// url.QueryUnescape of the header (Go standard library), which registered hash accepts which presented
// secret (golang.org/x/crypto/bcrypt on cost-4 hashes), and the facts about a client assertion (from how
// the assertion was built).  The table of token-endpoint handlers (Go type, grant type of
// CanHandleTokenEndpointRequest, shape of CanSkipClientAuth) is read from the SOURCE files with go/ast
// on every run and checked inside Coq (case 0, reflection: C10_only_the_switch_skips).

import (
	"context"
	"crypto/ecdsa"
	"crypto/elliptic"
	"crypto/rand"
	"encoding/base64"
	"encoding/json"
	"errors"
	"fmt"
	"go/ast"
	"go/parser"
	"go/token"
	"net/http"
	"net/http/httptest"
	"net/url"
	"os"
	"path/filepath"
	"reflect"
	"sort"
	"strconv"
	"strings"
	"sync"
	"testing"
	"time"

	jose "github.com/go-jose/go-jose/v3"
	"golang.org/x/crypto/bcrypt"

	"github.com/ory/fosite"
	"github.com/ory/fosite/compose"
	"github.com/ory/fosite/handler/openid"
	"github.com/ory/fosite/storage"
)

// ------------------------------------------------------------------ case description (replay record)

type c10Client struct {
	ID       string   `json:"id"`
	Public   bool     `json:"public"`
	OIDC     bool     `json:"oidc"`
	Method   string   `json:"method"`
	Secrets  []string `json:"secrets"` // plaintexts: [0] current, rest rotated; empty list = no hash registered
	KeyOwner string   `json:"key"`     // which key pair is registered for private_key_jwt: "t" | "o"
}

type c10Assert struct {
	Kind     string `json:"kind"`      // jwt | garbage | empty
	SignedBy string `json:"signed_by"` // t | o | rogue | rsa (registered RSA key, not the registered algorithm)
	Iss      string `json:"iss"`
	Sub      string `json:"sub"`
	NoSub    bool   `json:"no_sub"`
	Expired  bool   `json:"expired"`
	BadAud   bool   `json:"bad_aud"`
	NoJTI    bool   `json:"no_jti"`
	Replay   bool   `json:"replay"`
}

type c10Spec struct {
	Label      string      `json:"label"`
	Endpoint   string      `json:"endpoint"` // token | revoke | par | device
	Grant      string      `json:"grant_type"`
	Switch     bool        `json:"jwt_bearer_can_skip_client_auth"`
	Clients    []c10Client `json:"clients"`
	AuthHeader string      `json:"authorization"`
	FormID     string      `json:"client_id"`
	FormSecret string      `json:"client_secret"`
	AType      string      `json:"client_assertion_type"`
	Assert     *c10Assert  `json:"client_assertion,omitempty"`
	RequestURI bool        `json:"request_uri,omitempty"`
	// credentials placed in the request URI instead of the body: the request URI is no transport any authentication
	// method permits (RFC 6749 2.3.1), so the model is given the body only (these fields never reach it)
	QuerySecret string `json:"query_client_secret,omitempty"`
	QueryAssert bool   `json:"assertion_in_query,omitempty"`
	// implementation's observation (informative in the replay file; recomputed on replay)
	Res     string `json:"impl_result"`
	Client  string `json:"impl_client"`
	Calls   []int  `json:"impl_calls"`
	Final   string `json:"impl_final"`
	Changed bool   `json:"impl_store_changed"`
}

const (
	c10TokenURL  = "https://as.example/token"
	c10Redirect  = "https://app.example/cb"
	c10JWTBearer = "urn:ietf:params:oauth:grant-type:jwt-bearer"
	c10DevGrant  = "urn:ietf:params:oauth:grant-type:device_code"
	c10AType     = "urn:ietf:params:oauth:client-assertion-type:jwt-bearer"
)

// ------------------------------------------------------------------ keys, hashes

var (
	c10KeyOnce sync.Once
	c10Keys    map[string]*ecdsa.PrivateKey
	c10CmpMu   sync.Mutex
	c10CmpMemo = map[string]bool{}
)

func c10Key(name string) *ecdsa.PrivateKey {
	c10KeyOnce.Do(func() {
		c10Keys = map[string]*ecdsa.PrivateKey{}
		for _, n := range []string{"t", "o", "rogue", "issuer"} {
			k, err := ecdsa.GenerateKey(elliptic.P256(), rand.Reader)
			if err != nil {
				panic(err)
			}
			c10Keys[n] = k
		}
	})
	return c10Keys[name]
}

// the harness's own bcrypt verdict (x/crypto/bcrypt, not fosite.BCrypt)
func c10Compare(hash []byte, secret string) bool {
	k := string(hash) + "\x00" + secret
	c10CmpMu.Lock()
	v, ok := c10CmpMemo[k]
	c10CmpMu.Unlock()
	if ok {
		return v
	}
	v = bcrypt.CompareHashAndPassword(hash, []byte(secret)) == nil
	c10CmpMu.Lock()
	c10CmpMemo[k] = v
	c10CmpMu.Unlock()
	return v
}

func c10Sign(key *ecdsa.PrivateKey, claims map[string]any) string {
	signer, err := jose.NewSigner(jose.SigningKey{Algorithm: jose.ES256, Key: key}, (&jose.SignerOptions{}).WithType("JWT"))
	if err != nil {
		panic(err)
	}
	payload, _ := json.Marshal(claims)
	obj, err := signer.Sign(payload)
	if err != nil {
		panic(err)
	}
	s, err := obj.CompactSerialize()
	if err != nil {
		panic(err)
	}
	return s
}

// ------------------------------------------------------------------ handler table read from the source

type c10Handler struct {
	Name  string // Go type as printed by reflect, e.g. *oauth2.ClientCredentialsGrantHandler
	Grant string
	Skip  string // SkipFalse | SkipSwitch | SkipOther
}

type c10Pkg struct {
	funcs  map[string]*ast.FuncDecl // "Type.Method"
	consts map[string]string
}

var c10PkgCache = map[string]*c10Pkg{}

func c10ParsePkg(dir string) (*c10Pkg, error) {
	if p, ok := c10PkgCache[dir]; ok {
		return p, nil
	}
	fset := token.NewFileSet()
	ents, err := os.ReadDir(dir)
	if err != nil {
		return nil, err
	}
	p := &c10Pkg{funcs: map[string]*ast.FuncDecl{}, consts: map[string]string{}}
	for _, e := range ents {
		n := e.Name()
		if e.IsDir() || !strings.HasSuffix(n, ".go") || strings.HasSuffix(n, "_test.go") {
			continue
		}
		f, err := parser.ParseFile(fset, filepath.Join(dir, n), nil, 0)
		if err != nil {
			return nil, err
		}
		for _, d := range f.Decls {
			switch d := d.(type) {
			case *ast.FuncDecl:
				if d.Recv == nil || len(d.Recv.List) != 1 {
					continue
				}
				t := d.Recv.List[0].Type
				if st, ok := t.(*ast.StarExpr); ok {
					t = st.X
				}
				if id, ok := t.(*ast.Ident); ok {
					p.funcs[id.Name+"."+d.Name.Name] = d
				}
			case *ast.GenDecl:
				if d.Tok != token.CONST {
					continue
				}
				for _, s := range d.Specs {
					vs := s.(*ast.ValueSpec)
					for i, nm := range vs.Names {
						if i < len(vs.Values) {
							if bl, ok := vs.Values[i].(*ast.BasicLit); ok && bl.Kind == token.STRING {
								if v, err := strconv.Unquote(bl.Value); err == nil {
									p.consts[nm.Name] = v
								}
							}
						}
					}
				}
			}
		}
	}
	c10PkgCache[dir] = p
	return p, nil
}

func c10SingleReturn(fd *ast.FuncDecl) ast.Expr {
	if fd.Body == nil || len(fd.Body.List) != 1 {
		return nil
	}
	rs, ok := fd.Body.List[0].(*ast.ReturnStmt)
	if !ok || len(rs.Results) != 1 {
		return nil
	}
	return rs.Results[0]
}

func c10HandlerTable(repo string, hs []fosite.TokenEndpointHandler) ([]c10Handler, error) {
	root, err := c10ParsePkg(repo)
	if err != nil {
		return nil, err
	}
	var out []c10Handler
	for _, h := range hs {
		rt := reflect.TypeOf(h)
		el := rt
		if el.Kind() == reflect.Ptr {
			el = el.Elem()
		}
		rel := strings.TrimPrefix(el.PkgPath(), "github.com/ory/fosite")
		pkg, err := c10ParsePkg(filepath.Join(repo, filepath.FromSlash(rel)))
		if err != nil {
			return nil, err
		}
		ent := c10Handler{Name: rt.String(), Skip: "SkipOther"}
		// CanSkipClientAuth
		fd := pkg.funcs[el.Name()+".CanSkipClientAuth"]
		if fd == nil {
			return nil, fmt.Errorf("translator: %s has no CanSkipClientAuth in %s", rt, rel)
		}
		if e := c10SingleReturn(fd); e != nil {
			switch e := e.(type) {
			case *ast.Ident:
				if e.Name == "false" {
					ent.Skip = "SkipFalse"
				}
			case *ast.CallExpr:
				if sel, ok := e.Fun.(*ast.SelectorExpr); ok && sel.Sel.Name == "GetGrantTypeJWTBearerCanSkipClientAuth" && len(e.Args) == 1 {
					if x, ok := sel.X.(*ast.SelectorExpr); ok && x.Sel.Name == "Config" {
						ent.Skip = "SkipSwitch"
					}
				}
			}
		}
		// CanHandleTokenEndpointRequest: return requester.GetGrantTypes().ExactOne(X)
		fd = pkg.funcs[el.Name()+".CanHandleTokenEndpointRequest"]
		if fd == nil {
			return nil, fmt.Errorf("translator: %s has no CanHandleTokenEndpointRequest in %s", rt, rel)
		}
		call, _ := c10SingleReturn(fd).(*ast.CallExpr)
		ok := false
		if call != nil && len(call.Args) == 1 {
			if sel, isSel := call.Fun.(*ast.SelectorExpr); isSel && sel.Sel.Name == "ExactOne" {
				if inner, isCall := sel.X.(*ast.CallExpr); isCall {
					if s2, isSel2 := inner.Fun.(*ast.SelectorExpr); isSel2 && s2.Sel.Name == "GetGrantTypes" {
						switch a := call.Args[0].(type) {
						case *ast.BasicLit:
							if v, err := strconv.Unquote(a.Value); err == nil {
								ent.Grant, ok = v, true
							}
						case *ast.Ident:
							ent.Grant, ok = pkg.consts[a.Name]
						case *ast.CallExpr: // string(fosite.GrantTypeX)
							if f, isId := a.Fun.(*ast.Ident); isId && f.Name == "string" && len(a.Args) == 1 {
								if s3, isSel3 := a.Args[0].(*ast.SelectorExpr); isSel3 {
									ent.Grant, ok = root.consts[s3.Sel.Name]
								}
							}
						}
					}
				}
			}
		}
		if !ok {
			return nil, fmt.Errorf("translator: CanHandleTokenEndpointRequest of %s does not have the shape `return requester.GetGrantTypes().ExactOne(<const>)`", rt)
		}
		out = append(out, ent)
	}
	return out, nil
}

// ------------------------------------------------------------------ logging wrappers

type c10Log struct {
	calls []int
	seen  []string
	outs  []string // "" ok, "?" ErrUnknownRequest, else RFC error name
}

func (l *c10Log) add(i int, client fosite.Client, err error) {
	id := ""
	if client != nil {
		id = client.GetID()
	}
	o := ""
	if err != nil {
		if errors.Is(err, fosite.ErrUnknownRequest) {
			o = "?"
		} else {
			o = errName(err)
		}
	}
	l.calls = append(l.calls, i)
	l.seen = append(l.seen, id)
	l.outs = append(l.outs, o)
}

type c10TokenWrap struct {
	inner fosite.TokenEndpointHandler
	idx   int
	log   *c10Log
}

func (w *c10TokenWrap) PopulateTokenEndpointResponse(ctx context.Context, r fosite.AccessRequester, resp fosite.AccessResponder) error {
	return w.inner.PopulateTokenEndpointResponse(ctx, r, resp)
}
func (w *c10TokenWrap) HandleTokenEndpointRequest(ctx context.Context, r fosite.AccessRequester) error {
	err := w.inner.HandleTokenEndpointRequest(ctx, r)
	w.log.add(w.idx, r.GetClient(), err)
	return err
}
func (w *c10TokenWrap) CanSkipClientAuth(ctx context.Context, r fosite.AccessRequester) bool {
	return w.inner.CanSkipClientAuth(ctx, r)
}
func (w *c10TokenWrap) CanHandleTokenEndpointRequest(ctx context.Context, r fosite.AccessRequester) bool {
	return w.inner.CanHandleTokenEndpointRequest(ctx, r)
}

type c10RevWrap struct {
	inner fosite.RevocationHandler
	idx   int
	log   *c10Log
}

func (w *c10RevWrap) RevokeToken(ctx context.Context, tok string, tt fosite.TokenType, client fosite.Client) error {
	err := w.inner.RevokeToken(ctx, tok, tt, client)
	w.log.add(w.idx, client, err)
	return err
}

// ------------------------------------------------------------------ store fingerprint

func c10Fingerprint(s *storage.MemoryStore) string {
	var parts []string
	dump := func(name string, m any, withActive bool) {
		v := reflect.ValueOf(m)
		var ks []string
		for _, k := range v.MapKeys() {
			e := k.String()
			if withActive {
				e += fmt.Sprintf("=%v", v.MapIndex(k).FieldByName("active").Bool())
			}
			ks = append(ks, e)
		}
		sort.Strings(ks)
		parts = append(parts, name+"{"+strings.Join(ks, ",")+"}")
	}
	dump("codes", s.AuthorizeCodes, true)
	dump("ids", s.IDSessions, false)
	dump("at", s.AccessTokens, false)
	dump("rt", s.RefreshTokens, true)
	dump("dev", s.DeviceAuths, false)
	dump("pkce", s.PKCES, false)
	dump("atid", s.AccessTokenRequestIDs, false)
	dump("rtid", s.RefreshTokenRequestIDs, false)
	dump("devid", s.DeviceCodesRequestIDs, false)
	dump("par", s.PARSessions, false)
	return strings.Join(parts, ";")
}

// ------------------------------------------------------------------ one case

type c10Table struct {
	handlers []c10Handler
	nrev     int
}

func c10AllGrants() []string {
	return []string{"authorization_code", "client_credentials", "refresh_token", "password", "implicit", c10JWTBearer, c10DevGrant}
}

func c10Run(t *testing.T, sp *c10Spec, repo string) (Case, *c10Table) {
	ctx := context.Background()
	conf := &fosite.Config{
		GlobalSecret:                        []byte("0123456789abcdef0123456789abcdef-global"),
		TokenURL:                            c10TokenURL,
		RefreshTokenScopes:                  []string{},
		GrantTypeJWTBearerCanSkipClientAuth: sp.Switch,
		DeviceVerificationURL:               "https://as.example/device",
		SendDebugMessagesToClients:          true,
	}
	store := storage.NewMemoryStore()
	hashes := map[string][]byte{} // hash name -> bytes
	var coqClients []string
	var fclients []fosite.Client
	for i, c := range sp.Clients {
		dc := &fosite.DefaultClient{
			ID: c.ID, Public: c.Public,
			RedirectURIs:  []string{c10Redirect},
			GrantTypes:    c10AllGrants(),
			ResponseTypes: []string{"code", "token", "id_token"},
			Scopes:        []string{"a"},
		}
		var rot []string
		cur := fmt.Sprintf("%d.0", i)
		for j, s := range c.Secrets {
			h := hashSecret(s)
			name := fmt.Sprintf("%d.%d", i, j)
			hashes[name] = h
			if j == 0 {
				dc.Secret = h
			} else {
				dc.RotatedSecrets = append(dc.RotatedSecrets, h)
				rot = append(rot, name)
			}
		}
		if len(c.Secrets) == 0 {
			hashes[cur] = nil
		}
		var fc fosite.Client = dc
		if c.OIDC {
			owner := c.KeyOwner
			if owner == "" {
				owner = "rogue"
			}
			fc = &fosite.DefaultOpenIDConnectClient{
				DefaultClient:                     dc,
				TokenEndpointAuthMethod:           c.Method,
				TokenEndpointAuthSigningAlgorithm: "ES256",
				// the client's EC key, and an RSA key that is registered too but does not match the
				// registered signing algorithm (ES256)
				JSONWebKeys: &jose.JSONWebKeySet{Keys: []jose.JSONWebKey{
					{Key: &c10Key(owner).PublicKey, KeyID: "k-" + owner, Algorithm: "ES256", Use: "sig"},
					{Key: &theKey().PublicKey, KeyID: "k-rsa", Algorithm: "RS256", Use: "sig"}}},
			}
		}
		store.Clients[c.ID] = fc
		fclients = append(fclients, fc)
		coqClients = append(coqClients, fmt.Sprintf("Cl %s %s %s %s %s %s", Q(c.ID), B(c.Public), B(c.OIDC), Q(c.Method), Q(cur), QL(rot)))
	}
	prov := compose.ComposeAllEnabled(conf, store, theKey())

	// handler table from the source, wrappers around the composed handlers
	inner := append([]fosite.TokenEndpointHandler{}, conf.TokenEndpointHandlers...)
	hs, err := c10HandlerTable(repo, inner)
	if err != nil {
		t.Fatal(err)
	}
	tbl := &c10Table{handlers: hs, nrev: len(conf.RevocationHandlers)}
	lg := &c10Log{}
	for i, h := range inner {
		conf.TokenEndpointHandlers[i] = &c10TokenWrap{inner: h, idx: i, log: lg}
	}
	for i, h := range conf.RevocationHandlers {
		conf.RevocationHandlers[i] = &c10RevWrap{inner: h, idx: i, log: lg}
	}

	// ---- artefacts owned by the target client (index 0): a code, an access + refresh token, a device code
	strat := compose.NewOAuth2HMACStrategy(conf)
	owner := fclients[0]
	mkReq := func(id string) *fosite.Request {
		sess := openid.NewDefaultSession()
		sess.Subject = "peter"
		sess.SetExpiresAt(fosite.AuthorizeCode, time.Now().Add(time.Hour))
		sess.SetExpiresAt(fosite.AccessToken, time.Now().Add(time.Hour))
		sess.SetExpiresAt(fosite.RefreshToken, time.Now().Add(time.Hour))
		return &fosite.Request{ID: id, Client: owner, RequestedAt: time.Now().UTC(), Session: sess,
			RequestedScope: fosite.Arguments{"a"}, GrantedScope: fosite.Arguments{"a"},
			Form: url.Values{"redirect_uri": {c10Redirect}}}
	}
	form := url.Values{}
	switch sp.Endpoint {
	case "token":
		if sp.Grant != "" {
			form.Set("grant_type", sp.Grant)
		} else {
			form.Set("scope", "") // keep the body non-empty so that the grant_type check is reached
			form.Set("x", "y")
		}
		gts := fosite.RemoveEmpty(strings.Split(sp.Grant, " "))
		has := func(g string) bool {
			for _, x := range gts {
				if x == g {
					return true
				}
			}
			return false
		}
		if has("authorization_code") {
			rq := mkReq("req-code")
			code, sig, err := strat.GenerateAuthorizeCode(ctx, rq)
			if err != nil {
				t.Fatal(err)
			}
			if err := store.CreateAuthorizeCodeSession(ctx, sig, rq); err != nil {
				t.Fatal(err)
			}
			form.Set("code", code)
			form.Set("redirect_uri", c10Redirect)
		}
		if has("refresh_token") {
			rq := mkReq("req-tok")
			at, asig, _ := strat.GenerateAccessToken(ctx, rq)
			_ = at
			rt, rsig, err := strat.GenerateRefreshToken(ctx, rq)
			if err != nil {
				t.Fatal(err)
			}
			store.CreateAccessTokenSession(ctx, asig, rq)
			store.CreateRefreshTokenSession(ctx, rsig, asig, rq)
			form.Set("refresh_token", rt)
		}
		if has("password") {
			store.Users["peter"] = storage.MemoryUserRelation{Username: "peter", Password: "secret"}
			form.Set("username", "peter")
			form.Set("password", "secret")
		}
		if has(c10JWTBearer) {
			jwk := jose.JSONWebKey{Key: &c10Key("issuer").PublicKey, KeyID: "ik", Algorithm: "ES256", Use: "sig"}
			store.IssuerPublicKeys["issuer-1"] = storage.IssuerPublicKeys{Issuer: "issuer-1", KeysBySub: map[string]storage.SubjectPublicKeys{
				"peter": {Subject: "peter", Keys: map[string]storage.PublicKeyScopes{"ik": {Key: &jwk, Scopes: []string{"a"}}}}}}
			now := time.Now()
			form.Set("assertion", c10SignKid(c10Key("issuer"), "ik", map[string]any{
				"iss": "issuer-1", "sub": "peter", "aud": []string{c10TokenURL}, "exp": now.Add(10 * time.Minute).Unix(),
				"iat": now.Unix(), "jti": fmt.Sprintf("grant-jti-%d", now.UnixNano())}))
		}
		if has(c10DevGrant) {
			ds := compose.NewDeviceStrategy(conf)
			dcode, dsig, err := ds.GenerateDeviceCode(ctx)
			if err != nil {
				t.Fatal(err)
			}
			_, usig, _ := ds.GenerateUserCode(ctx)
			dr := fosite.NewDeviceRequest()
			dr.Request = *mkReq("req-dev")
			dr.Request.Session.SetExpiresAt(fosite.DeviceCode, time.Now().Add(time.Hour))
			dr.Request.Session.SetExpiresAt(fosite.UserCode, time.Now().Add(time.Hour))
			dr.SetUserCodeState(fosite.UserCodeAccepted)
			if err := store.CreateDeviceAuthSession(ctx, dsig, usig, dr); err != nil {
				t.Fatal(err)
			}
			form.Set("device_code", dcode)
		}
	case "revoke":
		rq := mkReq("req-tok")
		at, asig, _ := strat.GenerateAccessToken(ctx, rq)
		_, rsig, _ := strat.GenerateRefreshToken(ctx, rq)
		store.CreateAccessTokenSession(ctx, asig, rq)
		store.CreateRefreshTokenSession(ctx, rsig, asig, rq)
		form.Set("token", at)
	case "par":
		form.Set("response_type", "code")
		form.Set("redirect_uri", c10Redirect)
		form.Set("state", "state-0123456789")
		form.Set("scope", "a")
		if sp.RequestURI {
			form.Set("request_uri", "urn:ietf:params:oauth:request_uri:abc")
		}
	case "device":
		form.Set("scope", "a")
	}

	// ---- client credentials as the case prescribes
	if sp.FormID != "" {
		form.Set("client_id", sp.FormID)
	}
	if sp.FormSecret != "" {
		form.Set("client_secret", sp.FormSecret)
	}
	asCoq := "no_as"
	ahas := false
	if sp.AType != "" {
		form.Set("client_assertion_type", sp.AType)
	}
	if a := sp.Assert; a != nil {
		switch a.Kind {
		case "garbage":
			form.Set("client_assertion", "this.is-not.a-jwt")
			ahas = true
			asCoq = "(As false None \"\" None false false false false)"
		case "empty":
		case "jwt":
			now := time.Now()
			jti := fmt.Sprintf("jti-%d", now.UnixNano())
			claims := map[string]any{"iat": now.Add(-time.Minute).Unix()}
			if a.Iss != "" {
				claims["iss"] = a.Iss
			}
			if !a.NoSub {
				claims["sub"] = a.Sub
			}
			if a.Expired {
				claims["exp"] = now.Add(-10 * time.Minute).Unix()
			} else {
				claims["exp"] = now.Add(10 * time.Minute).Unix()
			}
			if a.BadAud {
				claims["aud"] = []string{"https://other.example/token"}
			} else {
				claims["aud"] = []string{c10TokenURL}
			}
			if !a.NoJTI {
				claims["jti"] = jti
			}
			if a.Replay && !a.NoJTI {
				if err := store.SetClientAssertionJWT(ctx, jti, now.Add(10*time.Minute)); err != nil {
					t.Fatal(err)
				}
			}
			if a.SignedBy == "rsa" {
				form.Set("client_assertion", c10SignRSA(claims))
			} else {
				form.Set("client_assertion", c10Sign(c10Key(a.SignedBy), claims))
			}
			ahas = true
			sub := "None"
			if !a.NoSub {
				sub = "(Some " + Q(a.Sub) + ")"
			}
			// whose registered key (and algorithm) verifies this signature
			keyOf := "None"
			for _, c := range sp.Clients {
				if c.OIDC && c.KeyOwner == a.SignedBy && a.SignedBy != "rogue" && a.SignedBy != "rsa" {
					keyOf = "(Some " + Q(c.ID) + ")"
					break
				}
			}
			asCoq = fmt.Sprintf("(As true %s %s %s %s %s %s %s)", sub, Q(a.Iss), keyOf, B(!a.Expired), B(!a.NoJTI), B(a.Replay && !a.NoJTI), B(!a.BadAud))
		}
	}
	target := "/" + sp.Endpoint
	uriAType, uriAhas, uriAs := "", false, "no_as"
	if sp.QuerySecret != "" || sp.QueryAssert {
		q := url.Values{}
		if sp.QuerySecret != "" {
			q.Set("client_secret", sp.QuerySecret)
		}
		if sp.QueryAssert {
			for _, k := range []string{"client_assertion_type", "client_assertion"} {
				if form.Get(k) != "" {
					q.Set(k, form.Get(k))
					form.Del(k)
				}
			}
			uriAType, uriAhas, uriAs = sp.AType, ahas, asCoq
			ahas, asCoq = false, "no_as"
		}
		target += "?" + q.Encode()
	}
	req := httptest.NewRequest("POST", target, strings.NewReader(form.Encode()))
	req.Header.Set("Content-Type", "application/x-www-form-urlencoded")
	if sp.AuthHeader != "" {
		req.Header.Set("Authorization", sp.AuthHeader)
	}

	// ---- what the model takes as data: header class (net/http + net/url) and bcrypt verdicts
	hdrCoq := "HNone"
	var cand []string
	probe := &http.Request{Header: http.Header{}}
	if sp.AuthHeader != "" {
		probe.Header.Set("Authorization", sp.AuthHeader)
	}
	if u, p, ok := probe.BasicAuth(); ok {
		opt := func(raw string) (string, string) {
			v, err := url.QueryUnescape(raw)
			if err != nil {
				return "None", ""
			}
			return "(Some " + Q(v) + ")", v
		}
		uo, _ := opt(u)
		po, pv := opt(p)
		if po != "None" {
			cand = append(cand, pv)
		}
		hdrCoq = fmt.Sprintf("(HBasic %s %s %s)", Q(p), uo, po)
	}
	cand = append(cand, sp.FormSecret)
	if sp.QuerySecret != "" {
		cand = append(cand, sp.QuerySecret)
	}
	var cmpPairs []string
	seenPair := map[string]bool{}
	hnames := make([]string, 0, len(hashes))
	for n := range hashes {
		hnames = append(hnames, n)
	}
	sort.Strings(hnames)
	for _, n := range hnames {
		for _, s := range cand {
			if hashes[n] != nil && c10Compare(hashes[n], s) && !seenPair[n+"\x00"+s] {
				seenPair[n+"\x00"+s] = true
				cmpPairs = append(cmpPairs, fmt.Sprintf("(%s, %s)", Q(n), Q(s)))
			}
		}
	}

	// ---- run
	before := c10Fingerprint(store)
	res, final, client := "", "", ""
	func() {
		defer func() {
			if p := recover(); p != nil { // a crash of the library is an observation, not a harness failure
				res, final = "panic", "panic"
			}
		}()
		switch sp.Endpoint {
		case "token":
			ar, err := prov.NewAccessRequest(ctx, req, openid.NewDefaultSession())
			res = errName(err)
			final = res
			if err == nil {
				client = ar.GetClient().GetID()
				_, err2 := prov.NewAccessResponse(ctx, ar)
				final = errName(err2)
			}
			if len(lg.seen) > 0 {
				client = lg.seen[0]
				for _, s := range lg.seen {
					if s != client {
						t.Fatalf("handlers saw different clients: %v", lg.seen)
					}
				}
			}
		case "revoke":
			err := prov.NewRevocationRequest(ctx, req)
			res = errName(err)
			final = res
			if len(lg.seen) > 0 {
				client = lg.seen[0]
			}
		case "par":
			ar, err := prov.NewPushedAuthorizeRequest(ctx, req)
			res = errName(err)
			final = res
			if err == nil {
				client = ar.GetClient().GetID()
				_, err2 := prov.NewPushedAuthorizeResponse(ctx, ar, openid.NewDefaultSession())
				final = errName(err2)
			}
		case "device":
			dr, err := prov.NewDeviceRequest(ctx, req)
			res = errName(err)
			final = res
			if err == nil {
				client = dr.GetClient().GetID()
				_, err2 := prov.NewDeviceResponse(ctx, dr, openid.NewDefaultSession())
				final = errName(err2)
			}
		}
	}()
	changed := c10Fingerprint(store) != before

	// ---- emit
	var houts []string
	for k, i := range lg.calls {
		o := lg.outs[k]
		if hs != nil && sp.Endpoint == "token" && i < len(hs) && hs[i].Name == "*oauth2.ClientCredentialsGrantHandler" {
			continue // the model decides this handler's verdict itself
		}
		switch o {
		case "":
			// HOk is the default of the lookup
		case "?":
			houts = append(houts, fmt.Sprintf("(%d, HUnknown)", i))
		default:
			houts = append(houts, fmt.Sprintf("(%d, HErr %s)", i, Q(o)))
		}
	}
	var ep string
	switch sp.Endpoint {
	case "token":
		ep = "(EToken " + Q(sp.Grant) + ")"
	case "revoke":
		ep = "ERevoke"
	case "par":
		ep = "(EPAR " + B(sp.RequestURI) + ")"
	case "device":
		ep = "EDevice"
	}
	calls := make([]string, len(lg.calls))
	for i, c := range lg.calls {
		calls[i] = N(c)
	}
	cf := "cf0"
	if sp.Switch {
		cf = "cf1"
	}
	atype := sp.AType
	if sp.QueryAssert {
		atype = ""
	}
	rq := fmt.Sprintf("(Rq %s %s %s %s %s %s)", hdrCoq, Q(sp.FormID), Q(sp.FormSecret), Q(atype), B(ahas), asCoq)
	coq := fmt.Sprintf("K %s %s %s %s %s %s (Obs %s %s %s) %s %s", cf, L(coqClients), L(cmpPairs), ep, rq, L(houts),
		Q(res), Q(client), L(calls), B(changed), Q(final))
	if sp.QuerySecret != "" || sp.QueryAssert {
		uq := fmt.Sprintf("(Rq HNone \"\" %s %s %s %s)", Q(sp.QuerySecret), Q(uriAType), B(uriAhas), uriAs)
		coq = fmt.Sprintf("KU %s %s %s %s %s %s %s (Obs %s %s %s) %s %s", cf, L(coqClients), L(cmpPairs), ep, rq, uq, L(houts),
			Q(res), Q(client), L(calls), B(changed), Q(final))
	}
	sp.Res, sp.Client, sp.Calls, sp.Final, sp.Changed = res, client, append([]int{}, lg.calls...), final, changed

	// non-trivial: the decision depended on a registration (a registered client was named)
	nt := false
	for _, c := range sp.Clients {
		if strings.Contains(rq, Q(c.ID)) {
			nt = true
		}
	}
	key := fmt.Sprintf("%s|%s|%v|%v|%s|%s|%s|%s|%+v|%v", sp.Endpoint, sp.Grant, sp.Switch, sp.Clients, sp.AuthHeader, sp.FormID, sp.FormSecret, sp.AType, sp.Assert, sp.RequestURI) + "|" + sp.QuerySecret + fmt.Sprint(sp.QueryAssert)
	cp := *sp
	return Case{Coq: coq, Replay: &cp, NonTrivial: nt, Key: key}, tbl
}

// RS256 under the RSA key that every OIDC client has registered next to its EC key
func c10SignRSA(claims map[string]any) string {
	signer, err := jose.NewSigner(jose.SigningKey{Algorithm: jose.RS256, Key: theKey()}, (&jose.SignerOptions{}).WithType("JWT"))
	if err != nil {
		panic(err)
	}
	payload, _ := json.Marshal(claims)
	obj, err := signer.Sign(payload)
	if err != nil {
		panic(err)
	}
	s, _ := obj.CompactSerialize()
	return s
}

func c10SignKid(key *ecdsa.PrivateKey, kid string, claims map[string]any) string {
	signer, err := jose.NewSigner(jose.SigningKey{Algorithm: jose.ES256, Key: jose.JSONWebKey{Key: key, KeyID: kid}}, (&jose.SignerOptions{}).WithType("JWT"))
	if err != nil {
		panic(err)
	}
	payload, _ := json.Marshal(claims)
	obj, err := signer.Sign(payload)
	if err != nil {
		panic(err)
	}
	s, _ := obj.CompactSerialize()
	return s
}

func c10Preamble(tbl *c10Table) string {
	var ents []string
	for _, h := range tbl.handlers {
		ents = append(ents, fmt.Sprintf("TH %s %s %s", Q(h.Name), Q(h.Grant), h.Skip))
	}
	// NewOut prints "From FositeModel Require Import <module>." ; the local definitions ride along
	return "Cases.CasesC10.\nDefinition tbl : list th := " + L(ents) + ".\n" +
		fmt.Sprintf("Definition cf0 := Cfg false tbl %d.\nDefinition cf1 := Cfg true tbl %d", tbl.nrev, tbl.nrev)
}

// ------------------------------------------------------------------ generation

func basicHeader(user, pass string) string {
	return "Basic " + base64.StdEncoding.EncodeToString([]byte(user+":"+pass))
}

type c10Reg struct {
	name string
	c    c10Client
}

const (
	c10Cur  = "s3cr3t-cur"
	c10Rot1 = "rot-one"
	c10Rot2 = "rot-two"
	c10OSec = "other-secret"
	c10SpID = "t id+%/&=:\xc3\xa9"
	c10SpSe = "p@ss w+rd%&=/:\xc3\xa9"
)

func c10Registrations() []c10Reg {
	var rs []c10Reg
	add := func(name string, c c10Client) {
		if c.ID == "" {
			c.ID = "t"
		}
		c.KeyOwner = "t"
		rs = append(rs, c10Reg{name, c})
	}
	add("plain-conf", c10Client{Secrets: []string{c10Cur}})
	add("plain-conf-rot1", c10Client{Secrets: []string{c10Cur, c10Rot1}})
	add("plain-conf-rot2", c10Client{Secrets: []string{c10Cur, c10Rot1, c10Rot2}})
	add("plain-public", c10Client{Public: true})
	add("plain-public-with-hash", c10Client{Public: true, Secrets: []string{c10Cur}})
	add("plain-conf-special", c10Client{ID: c10SpID, Secrets: []string{c10SpSe, c10Rot1}})
	add("plain-conf-nohash", c10Client{})
	add("plain-conf-emptysecret", c10Client{Secrets: []string{""}})
	for _, m := range []string{"client_secret_basic", "client_secret_post", "none", "private_key_jwt", "client_secret_jwt", ""} {
		add("oidc-conf-"+m, c10Client{OIDC: true, Method: m, Secrets: []string{c10Cur}})
		add("oidc-conf-rot2-"+m, c10Client{OIDC: true, Method: m, Secrets: []string{c10Cur, c10Rot1, c10Rot2}})
	}
	for _, m := range []string{"none", "client_secret_basic", "client_secret_post", "private_key_jwt", ""} {
		add("oidc-public-"+m, c10Client{OIDC: true, Public: true, Method: m})
	}
	add("oidc-conf-special-basic", c10Client{ID: c10SpID, OIDC: true, Method: "client_secret_basic", Secrets: []string{c10SpSe, c10Rot1}})
	add("oidc-conf-emptysecret-post", c10Client{OIDC: true, Method: "client_secret_post", Secrets: []string{""}})
	add("oidc-conf-emptysecret-none", c10Client{OIDC: true, Method: "none", Secrets: []string{""}})
	return rs
}

// the second registration: a plain confidential client, or an OIDC private_key_jwt client
func c10Others() []c10Client {
	return []c10Client{
		{ID: "o", Secrets: []string{c10OSec}, KeyOwner: "o"},
		{ID: "o", OIDC: true, Method: "private_key_jwt", Secrets: []string{c10OSec}, KeyOwner: "o"},
	}
}

type c10Secret struct {
	name string
	val  string
	ok   bool // exists for this registration
}

func c10SecretRelations(t c10Client) []c10Secret {
	cur, r1, r2 := "", "", ""
	if len(t.Secrets) > 0 {
		cur = t.Secrets[0]
	}
	if len(t.Secrets) > 1 {
		r1 = t.Secrets[1]
	}
	if len(t.Secrets) > 2 {
		r2 = t.Secrets[2]
	}
	base := cur
	if base == "" {
		base = c10Cur
	}
	return []c10Secret{
		{"current", cur, len(t.Secrets) > 0},
		{"rotated1", r1, len(t.Secrets) > 1},
		{"rotated2", r2, len(t.Secrets) > 2},
		{"wrong", base + "x", true},
		{"wrong-prefix", base[:len(base)-1], true},
		{"empty", "", true},
		{"others", c10OSec, true},
	}
}

type c10Transport struct {
	name      string
	useSecret bool // whether the presented secret matters for this transport
	build     func(sp *c10Spec, id, secret string)
}

func c10Transports() []c10Transport {
	esc := url.QueryEscape
	jwt := func(signed, iss, sub string) *c10Assert {
		return &c10Assert{Kind: "jwt", SignedBy: signed, Iss: iss, Sub: sub}
	}
	return []c10Transport{
		{"basic", true, func(sp *c10Spec, id, s string) { sp.AuthHeader = basicHeader(esc(id), esc(s)) }},
		{"basic-lowercase-scheme", true, func(sp *c10Spec, id, s string) {
			sp.AuthHeader = "basic " + strings.TrimPrefix(basicHeader(esc(id), esc(s)), "Basic ")
		}},
		{"basic-raw-unescaped", true, func(sp *c10Spec, id, s string) { sp.AuthHeader = basicHeader(id, s) }},
		{"post", true, func(sp *c10Spec, id, s string) { sp.FormID, sp.FormSecret = id, s }},
		{"both-same", true, func(sp *c10Spec, id, s string) {
			sp.AuthHeader = basicHeader(esc(id), esc(s))
			sp.FormID, sp.FormSecret = id, s
		}},
		{"basic+body-id", true, func(sp *c10Spec, id, s string) {
			sp.AuthHeader = basicHeader(esc(id), esc(s))
			sp.FormID = id
		}},
		{"basic+body-other-id", true, func(sp *c10Spec, id, s string) {
			sp.AuthHeader = basicHeader(esc(id), esc(s))
			sp.FormID = "o"
		}},
		{"basic-other-valid+body-target-id", false, func(sp *c10Spec, id, s string) {
			sp.AuthHeader = basicHeader("o", esc(c10OSec))
			sp.FormID = id
		}},
		{"basic-other-valid+body-target-creds", true, func(sp *c10Spec, id, s string) {
			sp.AuthHeader = basicHeader("o", esc(c10OSec))
			sp.FormID, sp.FormSecret = id, s
		}},
		{"basic-wrong+body-creds", true, func(sp *c10Spec, id, s string) {
			sp.AuthHeader = basicHeader(esc(id), "nope")
			sp.FormID, sp.FormSecret = id, s
		}},
		{"basic-empty-secret+body-creds", true, func(sp *c10Spec, id, s string) {
			sp.AuthHeader = basicHeader(esc(id), "")
			sp.FormID, sp.FormSecret = id, s
		}},
		{"basic-empty-id+body-creds", true, func(sp *c10Spec, id, s string) {
			sp.AuthHeader = basicHeader("", esc(s))
			sp.FormID, sp.FormSecret = id, s
		}},
		{"body-id-only", false, func(sp *c10Spec, id, s string) { sp.FormID = id }},
		{"body-id+query-secret", true, func(sp *c10Spec, id, s string) { sp.FormID, sp.QuerySecret = id, s }},
		{"query-assertion", false, func(sp *c10Spec, id, s string) {
			sp.AType, sp.Assert, sp.QueryAssert = c10AType, jwt("t", id, id), true
		}},
		{"body-secret-only", true, func(sp *c10Spec, id, s string) { sp.FormSecret = s }},
		{"none", false, func(sp *c10Spec, id, s string) {}},
		{"unknown-id-basic", true, func(sp *c10Spec, id, s string) { sp.AuthHeader = basicHeader("nobody", esc(s)) }},
		{"unknown-id-post", true, func(sp *c10Spec, id, s string) { sp.FormID, sp.FormSecret = "nobody", s }},
		{"id-case-changed-basic", true, func(sp *c10Spec, id, s string) { sp.AuthHeader = basicHeader(esc(strings.ToUpper(id)), esc(s)) }},
		{"malformed-not-base64", false, func(sp *c10Spec, id, s string) { sp.AuthHeader = "Basic !!!not-base64!!!" }},
		{"malformed-no-colon", false, func(sp *c10Spec, id, s string) {
			sp.AuthHeader = "Basic " + base64.StdEncoding.EncodeToString([]byte(id))
		}},
		{"malformed-bearer", false, func(sp *c10Spec, id, s string) { sp.AuthHeader = "Bearer " + id }},
		{"malformed-not-base64+body-creds", true, func(sp *c10Spec, id, s string) {
			sp.AuthHeader = "Basic !!!not-base64!!!"
			sp.FormID, sp.FormSecret = id, s
		}},
		{"bearer+body-creds", true, func(sp *c10Spec, id, s string) {
			sp.AuthHeader = "Bearer abc"
			sp.FormID, sp.FormSecret = id, s
		}},
		{"basic-bad-escape-id", true, func(sp *c10Spec, id, s string) { sp.AuthHeader = basicHeader(esc(id)+"%zz", esc(s)) }},
		{"basic-bad-escape-secret", true, func(sp *c10Spec, id, s string) { sp.AuthHeader = basicHeader(esc(id), esc(s)+"%4") }},
		{"basic-bad-escape-id+body-creds", true, func(sp *c10Spec, id, s string) {
			sp.AuthHeader = basicHeader("%zz", "x")
			sp.FormID, sp.FormSecret = id, s
		}},
		{"basic-double-escaped", true, func(sp *c10Spec, id, s string) { sp.AuthHeader = basicHeader(esc(esc(id)), esc(esc(s))) }},
		// ---- client assertions
		{"assertion-valid", false, func(sp *c10Spec, id, s string) { sp.AType, sp.Assert = c10AType, jwt("t", id, id) }},
		{"assertion-valid+body-id", false, func(sp *c10Spec, id, s string) {
			sp.AType, sp.Assert, sp.FormID = c10AType, jwt("t", id, id), id
		}},
		{"assertion-valid+body-other-id", false, func(sp *c10Spec, id, s string) {
			sp.AType, sp.Assert, sp.FormID = c10AType, jwt("t", id, id), "o"
		}},
		{"assertion-valid+basic-creds", true, func(sp *c10Spec, id, s string) {
			sp.AType, sp.Assert = c10AType, jwt("t", id, id)
			sp.AuthHeader = basicHeader(esc(id), esc(s))
		}},
		{"assertion-others-key", false, func(sp *c10Spec, id, s string) { sp.AType, sp.Assert = c10AType, jwt("o", id, id) }},
		{"assertion-others-valid-for-other", false, func(sp *c10Spec, id, s string) { sp.AType, sp.Assert = c10AType, jwt("o", "o", "o") }},
		{"assertion-others-valid+body-target-id", false, func(sp *c10Spec, id, s string) {
			sp.AType, sp.Assert, sp.FormID = c10AType, jwt("o", "o", "o"), id
		}},
		{"assertion-registered-key-wrong-alg", false, func(sp *c10Spec, id, s string) { sp.AType, sp.Assert = c10AType, jwt("rsa", id, id) }},
		{"assertion-rogue-key", false, func(sp *c10Spec, id, s string) { sp.AType, sp.Assert = c10AType, jwt("rogue", id, id) }},
		{"assertion-iss-mismatch", false, func(sp *c10Spec, id, s string) { sp.AType, sp.Assert = c10AType, jwt("t", "o", id) }},
		{"assertion-no-iss", false, func(sp *c10Spec, id, s string) { sp.AType, sp.Assert = c10AType, jwt("t", "", id) }},
		{"assertion-sub-mismatch+body-id", false, func(sp *c10Spec, id, s string) {
			sp.AType, sp.Assert, sp.FormID = c10AType, jwt("t", id, "o"), id
		}},
		{"assertion-no-sub", false, func(sp *c10Spec, id, s string) {
			a := jwt("t", id, "")
			a.NoSub = true
			sp.AType, sp.Assert = c10AType, a
		}},
		{"assertion-no-sub+body-id", false, func(sp *c10Spec, id, s string) {
			a := jwt("t", id, "")
			a.NoSub = true
			sp.AType, sp.Assert, sp.FormID = c10AType, a, id
		}},
		{"assertion-expired", false, func(sp *c10Spec, id, s string) {
			a := jwt("t", id, id)
			a.Expired = true
			sp.AType, sp.Assert = c10AType, a
		}},
		{"assertion-bad-aud", false, func(sp *c10Spec, id, s string) {
			a := jwt("t", id, id)
			a.BadAud = true
			sp.AType, sp.Assert = c10AType, a
		}},
		{"assertion-no-jti", false, func(sp *c10Spec, id, s string) {
			a := jwt("t", id, id)
			a.NoJTI = true
			sp.AType, sp.Assert = c10AType, a
		}},
		{"assertion-replayed-jti", false, func(sp *c10Spec, id, s string) {
			a := jwt("t", id, id)
			a.Replay = true
			sp.AType, sp.Assert = c10AType, a
		}},
		{"assertion-garbage", false, func(sp *c10Spec, id, s string) { sp.AType, sp.Assert = c10AType, &c10Assert{Kind: "garbage"} }},
		{"assertion-empty", false, func(sp *c10Spec, id, s string) { sp.AType, sp.Assert = c10AType, &c10Assert{Kind: "empty"} }},
		{"assertion-empty+basic-creds", true, func(sp *c10Spec, id, s string) {
			sp.AType, sp.Assert = c10AType, &c10Assert{Kind: "empty"}
			sp.AuthHeader = basicHeader(esc(id), esc(s))
		}},
		{"assertion-unknown-type+basic-creds", true, func(sp *c10Spec, id, s string) {
			sp.AType = "urn:example:unknown"
			sp.AuthHeader = basicHeader(esc(id), esc(s))
		}},
		{"assertion-without-type+basic-creds", true, func(sp *c10Spec, id, s string) {
			sp.Assert = jwt("t", id, id)
			sp.AuthHeader = basicHeader(esc(id), esc(s))
		}},
	}
}

type c10EP struct {
	name, ep, grant string
	sw, ruri        bool
}

func c10Endpoints() []c10EP {
	return []c10EP{
		{"token/authorization_code", "token", "authorization_code", false, false},
		{"token/client_credentials", "token", "client_credentials", false, false},
		{"token/refresh_token", "token", "refresh_token", false, false},
		{"token/password", "token", "password", false, false},
		{"token/jwt-bearer", "token", c10JWTBearer, false, false},
		{"token/jwt-bearer+switch", "token", c10JWTBearer, true, false},
		{"token/device_code", "token", c10DevGrant, false, false},
		{"token/client_credentials+switch", "token", "client_credentials", true, false},
		{"token/no-grant", "token", "", false, false},
		{"token/unknown-grant", "token", "urn:example:unknown", false, false},
		{"token/two-grants", "token", "client_credentials " + c10JWTBearer, true, false},
		{"token/padded-grant", "token", " client_credentials  ", false, false},
		{"revoke", "revoke", "", false, false},
		{"par", "par", "", false, false},
		{"par+request_uri", "par", "", false, true},
		{"device", "device", "", false, false},
	}
}

func init() { Register("C10", runC10) }

func runC10(t *testing.T, e Env) {
	repo := os.Getenv("HX_REPO")
	if repo == "" {
		repo = "/repo"
	}
	var out *Out
	var tbl *c10Table
	emit := func(sp *c10Spec) {
		c, tb := c10Run(t, sp, repo)
		if out == nil {
			tbl = tb
			out = NewOut(e.Out, c10Preamble(tb), "c10case", "check", 400)
			ents := make([]map[string]string, len(tb.handlers))
			for i, h := range tb.handlers {
				ents[i] = map[string]string{"type": h.Name, "grant": h.Grant, "can_skip_client_auth": h.Skip}
			}
			out.Notes["token_endpoint_handlers_read_from_source"] = ents
			// case 0: the handler table itself (reflection)
			out.Add(Case{Coq: "KTable tbl", Replay: map[string]any{"label": "handler-table", "table": ents}, NonTrivial: true, Key: "table"})
			out.Count("handler-table")
		} else if !reflect.DeepEqual(tb, tbl) {
			t.Fatalf("handler table changed between cases")
		}
		out.Add(c)
	}
	if e.Replay != nil {
		var sp c10Spec
		if err := json.Unmarshal(e.Replay, &sp); err != nil {
			t.Fatal(err)
		}
		if sp.Label == "handler-table" || len(sp.Clients) == 0 {
			// replay of the table case: any request reproduces the table
			sp = c10Spec{Label: "handler-table", Endpoint: "token", Grant: "client_credentials",
				Clients: []c10Client{{ID: "t", Secrets: []string{c10Cur}}, c10Others()[0]}}
			emit(&sp)
			out.cases = out.cases[:1]
		} else {
			emit(&sp)
			out.cases = out.cases[1:] // the recorded case only, at index 0
		}
		if err := out.Flush("replay"); err != nil {
			t.Fatal(err)
		}
		return
	}

	r := NewRNG(e.Seed)
	regs := c10Registrations()
	others := c10Others()
	trs := c10Transports()
	eps := c10Endpoints()
	perCombo := 2
	if e.Tier == "thorough" {
		perCombo = len(eps)
	}
	combo := 0
	for _, reg := range regs {
		for _, tr := range trs {
			secs := c10SecretRelations(reg.c)
			if !tr.useSecret {
				secs = secs[:1]
				secs[0].ok = true
			}
			for _, sec := range secs {
				if !sec.ok {
					continue
				}
				combo++
				// endpoints: all of them (thorough) or a rotating pair plus a seeded one (quick)
				var chosen []c10EP
				if perCombo >= len(eps) {
					chosen = eps
				} else {
					chosen = append(chosen, eps[combo%len(eps)], eps[(combo*7+3+r.Intn(len(eps)))%len(eps)])
				}
				for k, ep := range chosen {
					other := others[(combo+k)%len(others)]
					sp := &c10Spec{
						Label:    reg.name + " | " + tr.name + " | " + sec.name + " | " + ep.name,
						Endpoint: ep.ep, Grant: ep.grant, Switch: ep.sw, RequestURI: ep.ruri,
						Clients: []c10Client{reg.c, other},
					}
					tr.build(sp, reg.c.ID, sec.val)
					emit(sp)
					out.Count("registration:" + reg.name)
					out.Count("transport:" + tr.name)
					out.Count("secret:" + sec.name)
					out.Count("endpoint:" + ep.name)
					if sp.Res == "" {
						out.Count("verdict:accepted")
					} else {
						out.Count("verdict:" + sp.Res)
					}
					if sp.Final == "" && sp.Changed {
						out.Count("outcome:processed-and-state-changed")
					}
					if sp.Res != "" && len(sp.Calls) == 0 && sp.Changed {
						out.Count("outcome:REJECTED-BUT-STATE-CHANGED")
					}
				}
			}
		}
	}
	// adversarial stream: random recombination of header / body / assertion pieces
	nAdv := 600
	if e.Tier == "thorough" {
		nAdv = 6000
	}
	pieces := []string{"t", "o", "nobody", "", c10Cur, c10Rot1, c10OSec, "x", "%", "+", "a b", "t%20", "%74", c10SpID}
	for i := 0; i < nAdv; i++ {
		reg := Pick(r, regs)
		sp := &c10Spec{Label: "adversarial", Clients: []c10Client{reg.c, Pick(r, others)}}
		ep := Pick(r, eps)
		sp.Endpoint, sp.Grant, sp.Switch, sp.RequestURI = ep.ep, ep.grant, ep.sw, ep.ruri
		switch r.Intn(5) {
		case 0:
		case 1:
			sp.AuthHeader = basicHeader(Pick(r, pieces), Pick(r, pieces))
		case 2:
			sp.AuthHeader = basicHeader(url.QueryEscape(Pick(r, pieces)), url.QueryEscape(Pick(r, pieces)))
		case 3:
			sp.AuthHeader = Pick(r, []string{"Basic", "Basic ", "Basic Og==", "Basic dA==", "Digest x", "basic dDo=", "Basic dDpzM2NyM3QtY3Vy"})
		case 4:
			sp.AuthHeader = basicHeader(reg.c.ID, Pick(r, pieces))
		}
		if r.Chance(60) {
			sp.FormID = Pick(r, pieces)
		}
		if r.Chance(50) {
			sp.FormSecret = Pick(r, pieces)
		}
		if r.Chance(15) {
			sp.AType = Pick(r, []string{c10AType, c10AType, "x", strings.ToUpper(c10AType)})
			if r.Chance(70) {
				sp.Assert = &c10Assert{Kind: "jwt", SignedBy: Pick(r, []string{"t", "t", "o", "rogue", "rsa"}), Iss: Pick(r, []string{"t", "o", reg.c.ID}), Sub: Pick(r, []string{"t", "o", reg.c.ID}),
					Expired: r.Chance(10), BadAud: r.Chance(10), NoJTI: r.Chance(10), Replay: r.Chance(10), NoSub: r.Chance(10)}
			}
		}
		emit(sp)
		out.Count("stream:adversarial")
		if sp.Res == "" {
			out.Count("verdict:accepted")
		} else {
			out.Count("verdict:" + sp.Res)
		}
		if sp.Res != "" && len(sp.Calls) == 0 && sp.Changed {
			out.Count("outcome:REJECTED-BUT-STATE-CHANGED")
		}
	}
	out.Notes["cross_product"] = fmt.Sprintf("%d registrations x %d transports x secret relations (current, rotated1, rotated2, wrong, wrong-prefix, empty, other client's) x %d endpoint/grant settings (%d per combination in this tier)",
		len(regs), len(trs), len(eps), perCombo)
	if err := out.Flush("structured cross product registration x transport x secret relation x endpoint/grant on compose.ComposeAllEnabled over a fresh MemoryStore per case, plus a seeded adversarial stream; non-trivial = the request names a registered client (the verdict depends on the registration); distinct by all inputs"); err != nil {
		t.Fatal(err)
	}
}
