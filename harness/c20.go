package hx

// C20, first half: error rendering (errors.go) and every Write* function, executed on
// httptest.ResponseRecorder; the written bytes are decoded back with encoding/json, net/url and an
// HTML tokenizer and emitted as observations next to the inputs.

import (
	"bytes"
	"context"
	"encoding/hex"
	"encoding/json"
	"errors"
	"fmt"
	"math"
	"net/http"
	"net/http/httptest"
	"net/url"
	"sort"
	"strconv"
	"strings"
	"testing"
	"unicode/utf8"

	"golang.org/x/net/html"

	"github.com/ory/fosite"
	"github.com/ory/x/errorsx"
)

// BS is a byte string that survives a JSON replay record unchanged (invalid UTF-8 included).
type BS string

func (b BS) MarshalJSON() ([]byte, error) {
	s := string(b)
	plain := utf8.ValidString(s)
	if plain {
		for _, r := range s {
			if r < 32 || r == 0x7f || r == utf8.RuneError {
				plain = false
				break
			}
		}
	}
	if plain {
		return json.Marshal("=" + s)
	}
	return json.Marshal("x" + hex.EncodeToString([]byte(s)))
}

func (b *BS) UnmarshalJSON(data []byte) error {
	var s string
	if err := json.Unmarshal(data, &s); err != nil {
		return err
	}
	if strings.HasPrefix(s, "=") {
		*b = BS(s[1:])
		return nil
	}
	if strings.HasPrefix(s, "x") {
		raw, err := hex.DecodeString(s[1:])
		if err != nil {
			return err
		}
		*b = BS(raw)
		return nil
	}
	*b = BS(s)
	return nil
}

// ---------------------------------------------------------------- inputs

type c20Link struct {
	Var     string `json:"var,omitempty"` // package-level Err* variable, "" = literal
	Name    BS     `json:"name,omitempty"`
	Desc    BS     `json:"desc,omitempty"`
	Code    int    `json:"code,omitempty"`
	SetHint bool   `json:"set_hint,omitempty"`
	Hint    BS     `json:"hint,omitempty"`
	Debug   BS     `json:"debug,omitempty"`
	SetDesc bool   `json:"set_desc,omitempty"`
}

type c20Chain struct {
	Links   []c20Link `json:"links"`
	HasTail bool      `json:"has_tail,omitempty"`
	Tail    BS        `json:"tail,omitempty"`
	Stack   bool      `json:"stack,omitempty"` // wrapped once more by errorsx.WithStack
}

type c20KV struct {
	K BS   `json:"k"`
	V []BS `json:"v"`
}

type c20Call struct {
	Kind        string    `json:"kind"`
	Legacy      bool      `json:"legacy"`
	Expose      bool      `json:"expose"`
	CustomModes []string  `json:"custom_modes,omitempty"`
	Err         *c20Chain `json:"err,omitempty"`
	// authorize
	Mode       BS      `json:"mode,omitempty"`
	Redirect   BS      `json:"redirect,omitempty"`
	Registered []BS    `json:"registered,omitempty"`
	State      BS      `json:"state,omitempty"`
	Custom     []c20KV `json:"custom,omitempty"`
	Params     []c20KV `json:"params,omitempty"`
	// access / par / device / introspection responses
	Fields []c20KV `json:"fields,omitempty"` // string members; the value "#<n>" denotes the number n
	Active bool    `json:"active,omitempty"`
	Exp    int64   `json:"exp,omitempty"`
	Ivl    int     `json:"ivl,omitempty"`
	// errfn
	ELegacy bool `json:"e_legacy,omitempty"`
	EExpose bool `json:"e_expose,omitempty"`
}

var c20Table = map[string]*fosite.RFC6749Error{
	"ErrSerializationFailure": fosite.ErrSerializationFailure, "ErrUnknownRequest": fosite.ErrUnknownRequest,
	"ErrRequestForbidden": fosite.ErrRequestForbidden, "ErrInvalidRequest": fosite.ErrInvalidRequest,
	"ErrUnauthorizedClient": fosite.ErrUnauthorizedClient, "ErrAccessDenied": fosite.ErrAccessDenied,
	"ErrUnsupportedResponseType": fosite.ErrUnsupportedResponseType, "ErrUnsupportedResponseMode": fosite.ErrUnsupportedResponseMode,
	"ErrInvalidScope": fosite.ErrInvalidScope, "ErrServerError": fosite.ErrServerError,
	"ErrTemporarilyUnavailable": fosite.ErrTemporarilyUnavailable, "ErrUnsupportedGrantType": fosite.ErrUnsupportedGrantType,
	"ErrInvalidGrant": fosite.ErrInvalidGrant, "ErrInvalidClient": fosite.ErrInvalidClient,
	"ErrInvalidState": fosite.ErrInvalidState, "ErrMisconfiguration": fosite.ErrMisconfiguration,
	"ErrInsufficientEntropy": fosite.ErrInsufficientEntropy, "ErrNotFound": fosite.ErrNotFound,
	"ErrRequestUnauthorized": fosite.ErrRequestUnauthorized, "ErrTokenSignatureMismatch": fosite.ErrTokenSignatureMismatch,
	"ErrInvalidTokenFormat": fosite.ErrInvalidTokenFormat, "ErrTokenExpired": fosite.ErrTokenExpired,
	"ErrScopeNotGranted": fosite.ErrScopeNotGranted, "ErrTokenClaim": fosite.ErrTokenClaim,
	"ErrInactiveToken": fosite.ErrInactiveToken, "ErrLoginRequired": fosite.ErrLoginRequired,
	"ErrInteractionRequired": fosite.ErrInteractionRequired, "ErrConsentRequired": fosite.ErrConsentRequired,
	"ErrRequestNotSupported": fosite.ErrRequestNotSupported, "ErrRequestURINotSupported": fosite.ErrRequestURINotSupported,
	"ErrRegistrationNotSupported": fosite.ErrRegistrationNotSupported, "ErrInvalidRequestURI": fosite.ErrInvalidRequestURI,
	"ErrInvalidRequestObject": fosite.ErrInvalidRequestObject, "ErrJTIKnown": fosite.ErrJTIKnown,
	"ErrAuthorizationPending": fosite.ErrAuthorizationPending, "ErrSlowDown": fosite.ErrSlowDown,
	"ErrDeviceExpiredToken": fosite.ErrDeviceExpiredToken,
}

func c20Vars() []string {
	vs := make([]string, 0, len(c20Table))
	for k := range c20Table {
		vs = append(vs, k)
	}
	sort.Strings(vs)
	return vs
}

// adversarial texts: quotes, control bytes, HTML, URL metacharacters, invalid UTF-8, NUL, newlines
var c20Texts = []string{
	"",
	"plain hint.",
	`say "hello" and 'bye'`,
	`"`,
	`""""`,
	"tab\there\nnewline\r\ncrlf\rcr",
	"nul\x00byte\x01\x1f\x7f",
	`<script>alert("x")</script>`,
	`"><img src=x onerror=alert(1)>`,
	`</form><form action="https://evil.example/">`,
	"&amp; &#34; &quot; &lt;",
	"a=b&error=access_denied&state=forged#frag?x",
	"100% %zz %22 + plus",
	"\xff\xfe invalid \xc3\x28 utf8 \xe2\x82",
	"café   line sep \U0001F600",
	`back\slash \" " \\`,
	"{\"error\":\"injected\"}",
	"'; DROP TABLE tokens; --",
	strings.Repeat(`"<&>'`, 12),
	"  leading and trailing  ",
}

func c20Text(r *RNG) string {
	if r.Chance(15) {
		// random bytes, biased to the interesting ones
		n := 1 + r.Intn(12)
		b := make([]byte, n)
		pool := []byte{'"', '\'', '<', '>', '&', '\\', 0, '\r', '\n', '\t', ' ', '%', '#', '?', '=', '+', 0x80, 0xff, 0xc3, 0xa9, 'a', 'Z', '0', '/'}
		for i := range b {
			b[i] = pool[r.Intn(len(pool))]
		}
		return string(b)
	}
	return Pick(r, c20Texts)
}

const c20DebugMark = "D3BUG"

func c20Debug(r *RNG) string {
	if r.Chance(20) {
		return ""
	}
	return c20DebugMark + ":" + c20Text(r)
}

// ---------------------------------------------------------------- building Go errors

func (l *c20Link) build(inner error) *fosite.RFC6749Error {
	var e *fosite.RFC6749Error
	if l.Var != "" {
		base, ok := c20Table[l.Var]
		if !ok {
			panic("unknown error variable " + l.Var)
		}
		cp := *base
		e = &cp
	} else {
		e = &fosite.RFC6749Error{ErrorField: string(l.Name), DescriptionField: string(l.Desc), CodeField: l.Code}
	}
	if l.SetDesc {
		e = e.WithDescription(string(l.Desc))
	}
	if l.SetHint {
		e = e.WithHint(string(l.Hint))
	}
	if l.Debug != "" {
		e = e.WithDebug(string(l.Debug))
	}
	if inner != nil {
		e = e.WithWrap(inner)
	}
	return e
}

// returns the Go error and the RFC6749Error values of the chain, outermost first
func (c *c20Chain) build(scrub bool) (error, []*fosite.RFC6749Error) {
	if c == nil {
		return nil, nil
	}
	var inner error
	if c.HasTail {
		msg := string(c.Tail)
		if scrub {
			msg = ""
		}
		inner = errors.New(msg)
	}
	vals := make([]*fosite.RFC6749Error, len(c.Links))
	for i := len(c.Links) - 1; i >= 0; i-- {
		l := c.Links[i]
		if scrub {
			l.Debug = ""
		}
		e := l.build(inner)
		vals[i] = e
		inner = e
	}
	if inner != nil && c.Stack {
		inner = errorsx.WithStack(inner)
	}
	return inner, vals
}

func c20ErrCoq(e *fosite.RFC6749Error, legacy, expose bool) string {
	return fmt.Sprintf("(mkErr %s %s %s %d %s %s %s)", Q(e.ErrorField), Q(e.DescriptionField), Q(e.HintField), e.CodeField, Q(e.DebugField), B(legacy), B(expose))
}

func (c *c20Chain) coq() string {
	if c == nil {
		return "None"
	}
	_, vals := c.build(false)
	parts := make([]string, len(vals))
	for i, v := range vals {
		parts[i] = c20ErrCoq(v, false, false)
	}
	tail := "None"
	if c.HasTail {
		tail = "(Some " + Q(string(c.Tail)) + ")"
	}
	return "(mkGo " + L(parts) + " " + tail + ")"
}

// ---------------------------------------------------------------- Coq printers for the abstract response

func c20Values(v url.Values) string {
	keys := make([]string, 0, len(v))
	for k := range v {
		keys = append(keys, k)
	}
	sort.Strings(keys)
	parts := make([]string, 0, len(keys))
	for _, k := range keys {
		parts = append(parts, "("+Q(k)+","+QL(v[k])+")")
	}
	return L(parts)
}

func c20KVs(kvs []c20KV) string {
	parts := make([]string, len(kvs))
	for i, kv := range kvs {
		vs := make([]string, len(kv.V))
		for j, v := range kv.V {
			vs[j] = string(v)
		}
		parts[i] = "(" + Q(string(kv.K)) + "," + QL(vs) + ")"
	}
	return L(parts)
}

func c20JVal(v interface{}) string {
	switch x := v.(type) {
	case string:
		return "JS " + Q(x)
	case float64:
		if x == math.Trunc(x) && math.Abs(x) < 1e15 {
			n := int64(x)
			if n < 0 {
				return fmt.Sprintf("JN (%d)", n)
			}
			return fmt.Sprintf("JN %d", n)
		}
		return "JS \"!float\""
	case bool:
		return "JB " + B(x)
	case nil:
		return "JNull"
	}
	return "JS \"!other\""
}

func c20JObj(m map[string]interface{}) string {
	keys := make([]string, 0, len(m))
	for k := range m {
		keys = append(keys, k)
	}
	sort.Strings(keys)
	parts := make([]string, 0, len(keys))
	for _, k := range keys {
		parts = append(parts, "("+Q(k)+","+c20JVal(m[k])+")")
	}
	return L(parts)
}

// "k=v" members of the success responses; "#n" is the number n
func c20FieldsCoq(kvs []c20KV) string {
	parts := make([]string, len(kvs))
	for i, kv := range kvs {
		v := ""
		if len(kv.V) > 0 {
			v = string(kv.V[0])
		}
		parts[i] = "(" + Q(string(kv.K)) + "," + c20FieldVal(v) + ")"
	}
	return L(parts)
}

func c20FieldNum(v string) (int64, bool) {
	if strings.HasPrefix(v, "#") {
		if n, err := strconv.ParseInt(v[1:], 10, 64); err == nil {
			return n, true
		}
	}
	return 0, false
}

func c20FieldVal(v string) string {
	if n, ok := c20FieldNum(v); ok {
		if n < 0 {
			return fmt.Sprintf("JN (%d)", n)
		}
		return fmt.Sprintf("JN %d", n)
	}
	return "JS " + Q(v)
}

// a URL split the way a client sees it: base, query parameters, fragment
type c20Loc struct {
	base  string
	query url.Values
	frag  string
	has   bool // has a '#'
}

func c20SplitURL(s string) c20Loc {
	var l c20Loc
	if i := strings.IndexByte(s, '#'); i >= 0 {
		l.frag = s[i+1:]
		l.has = true
		s = s[:i]
	}
	if i := strings.IndexByte(s, '?'); i >= 0 {
		q, err := url.ParseQuery(s[i+1:])
		if err != nil {
			q = url.Values{"!unparsable-query": {s[i+1:]}}
		}
		l.query = q
		s = s[:i]
	} else {
		l.query = url.Values{}
	}
	l.base = s
	return l
}

func (l c20Loc) coq(fragParams bool) string {
	frag := "FNone"
	if l.has {
		if fragParams {
			p, err := url.ParseQuery(l.frag)
			if err != nil {
				frag = "(FRaw " + Q(l.frag) + ")"
			} else {
				frag = "(FParams " + c20Values(p) + ")"
			}
		} else if l.frag != "" {
			frag = "(FRaw " + Q(l.frag) + ")"
		}
	}
	return "(mkLoc " + Q(l.base) + " " + c20Values(l.query) + " " + frag + ")"
}

// ---------------------------------------------------------------- recorder

type c20RW struct {
	rec     *httptest.ResponseRecorder
	touched bool
}

func (w *c20RW) Header() http.Header { return w.rec.Header() }
func (w *c20RW) Write(b []byte) (int, error) {
	w.touched = true
	return w.rec.Write(b)
}
func (w *c20RW) WriteHeader(c int) { w.touched = true; w.rec.WriteHeader(c) }

const c20Delegated = "DELEGATED-TO-CUSTOM-RESPONSE-MODE-HANDLER"

type c20RMH struct{ modes []string }

func (h *c20RMH) ResponseModes() fosite.ResponseModeTypes {
	out := fosite.ResponseModeTypes{}
	for _, m := range h.modes {
		out = append(out, fosite.ResponseModeType(m))
	}
	return out
}
func (h *c20RMH) WriteAuthorizeResponse(ctx context.Context, rw http.ResponseWriter, ar fosite.AuthorizeRequester, resp fosite.AuthorizeResponder) {
	rw.Header().Set("X-Delegated", c20Delegated)
}
func (h *c20RMH) WriteAuthorizeError(ctx context.Context, rw http.ResponseWriter, ar fosite.AuthorizeRequester, err error) {
	rw.Header().Set("X-Delegated", c20Delegated)
}

type c20Raw struct {
	written bool
	status  int
	header  http.Header
	body    []byte
}

func (a c20Raw) same(b c20Raw) bool {
	if a.written != b.written || a.status != b.status || !bytes.Equal(a.body, b.body) || len(a.header) != len(b.header) {
		return false
	}
	for k, v := range a.header {
		w := b.header[k]
		if len(v) != len(w) {
			return false
		}
		for i := range v {
			if v[i] != w[i] {
				return false
			}
		}
	}
	return true
}

func kvHeader(kvs []c20KV) http.Header {
	h := http.Header{}
	for _, kv := range kvs {
		for _, v := range kv.V {
			h.Add(string(kv.K), string(v))
		}
	}
	return h
}

func kvValues(kvs []c20KV) url.Values {
	v := url.Values{}
	for _, kv := range kvs {
		for _, x := range kv.V {
			v.Add(string(kv.K), string(x))
		}
	}
	return v
}

func (c *c20Call) provider() *fosite.Fosite {
	conf := &fosite.Config{UseLegacyErrorFormat: c.Legacy, SendDebugMessagesToClients: c.Expose}
	if len(c.CustomModes) > 0 {
		conf.ResponseModeHandlerExtension = &c20RMH{modes: c.CustomModes}
	}
	return &fosite.Fosite{Config: conf}
}

func (c *c20Call) authorizeRequest() *fosite.AuthorizeRequest {
	ar := fosite.NewAuthorizeRequest()
	ar.ResponseMode = fosite.ResponseModeType(c.Mode)
	ar.State = string(c.State)
	u, err := url.Parse(string(c.Redirect))
	if err == nil {
		ar.RedirectURI = u
	}
	reg := make([]string, len(c.Registered))
	for i, s := range c.Registered {
		reg[i] = string(s)
	}
	ar.Client = &fosite.DefaultClient{ID: "c", RedirectURIs: reg}
	return ar
}

// run executes the writer once; scrub blanks every debug text and foreign message first
func (c *c20Call) run(t *testing.T, scrub bool) (raw c20Raw) {
	ctx := context.Background()
	f := c.provider()
	w := &c20RW{rec: httptest.NewRecorder()}
	err, _ := c.Err.build(scrub)
	defer func() {
		if p := recover(); p != nil {
			t.Fatalf("writer %s panicked: %v", c.Kind, p)
		}
	}()
	switch c.Kind {
	case "access_error":
		f.WriteAccessError(ctx, w, nil, err)
	case "access_error_req":
		f.WriteAccessError(ctx, w, fosite.NewAccessRequest(&fosite.DefaultSession{}), err)
	case "access_response":
		resp := fosite.NewAccessResponse()
		for _, kv := range c.Fields {
			v := string(kv.V[0])
			switch string(kv.K) {
			case "access_token":
				resp.SetAccessToken(v)
			case "token_type":
				resp.SetTokenType(v)
			default:
				if n, ok := c20FieldNum(v); ok {
					resp.SetExtra(string(kv.K), n)
				} else {
					resp.SetExtra(string(kv.K), v)
				}
			}
		}
		f.WriteAccessResponse(ctx, w, fosite.NewAccessRequest(&fosite.DefaultSession{}), resp)
	case "authorize_error":
		f.WriteAuthorizeError(ctx, w, c.authorizeRequest(), err)
	case "authorize_response":
		resp := fosite.NewAuthorizeResponse()
		resp.Header = kvHeader(c.Custom)
		resp.Parameters = kvValues(c.Params)
		f.WriteAuthorizeResponse(ctx, w, c.authorizeRequest(), resp)
	case "introspection_error":
		f.WriteIntrospectionError(ctx, w, err)
	case "introspection_response":
		ar := fosite.NewAccessRequest(&fosite.DefaultSession{Subject: "peter", Username: "peter"})
		ar.Client = &fosite.DefaultClient{ID: "c"}
		ar.GrantScope("openid")
		f.WriteIntrospectionResponse(ctx, w, &fosite.IntrospectionResponse{Active: c.Active, AccessRequester: ar})
	case "revocation":
		f.WriteRevocationResponse(ctx, w, err)
	case "par_response":
		resp := &fosite.PushedAuthorizeResponse{Header: kvHeader(c.Custom), Extra: map[string]interface{}{}}
		for _, kv := range c.Fields {
			v := string(kv.V[0])
			switch string(kv.K) {
			case "request_uri":
				resp.SetRequestURI(v)
			case "expires_in":
				n, _ := c20FieldNum(v)
				resp.SetExpiresIn(int(n))
			default:
				resp.SetExtra(string(kv.K), v)
			}
		}
		f.WritePushedAuthorizeResponse(ctx, w, c.authorizeRequest(), resp)
	case "par_error":
		f.WritePushedAuthorizeError(ctx, w, c.authorizeRequest(), err)
	case "device_response":
		resp := fosite.NewDeviceResponse()
		resp.Header = kvHeader(c.Custom)
		for _, kv := range c.Fields {
			v := string(kv.V[0])
			switch string(kv.K) {
			case "device_code":
				resp.SetDeviceCode(v)
			case "user_code":
				resp.SetUserCode(v)
			case "verification_uri":
				resp.SetVerificationURI(v)
			case "verification_uri_complete":
				resp.SetVerificationURIComplete(v)
			}
		}
		resp.SetExpiresIn(c.Exp)
		resp.SetInterval(c.Ivl)
		f.WriteDeviceResponse(ctx, w, &fosite.DeviceRequest{}, resp)
	default:
		t.Fatalf("unknown writer kind %q", c.Kind)
	}
	raw.written = w.touched || len(w.rec.Header()) > 0
	raw.status = w.rec.Code
	raw.header = w.rec.Header().Clone()
	raw.body = append([]byte{}, w.rec.Body.Bytes()...)
	return raw
}

func hdrList(h http.Header, k string) string { return QL(h.Values(k)) }

// HTML form page -> action + hidden inputs, as an HTML parser sees them
func c20ParseForm(page []byte) (action string, fields url.Values, ok bool) {
	fields = url.Values{}
	z := html.NewTokenizer(bytes.NewReader(page))
	forms := 0
	for {
		tt := z.Next()
		if tt == html.ErrorToken {
			break
		}
		if tt != html.StartTagToken && tt != html.SelfClosingTagToken {
			continue
		}
		tok := z.Token()
		switch tok.Data {
		case "form":
			forms++
			for _, a := range tok.Attr {
				if a.Key == "action" {
					action = a.Val
				}
			}
		case "input":
			var name, val string
			for _, a := range tok.Attr {
				if a.Key == "name" {
					name = a.Val
				}
				if a.Key == "value" {
					val = a.Val
				}
			}
			fields.Add(name, val)
		case "html", "head", "title", "body":
		default:
			// any other element means a reflected value escaped its attribute
			fields.Add("!unexpected-element", tok.Data)
		}
	}
	return action, fields, forms == 1
}

func c20BodyCoq(kind string, raw c20Raw) string {
	body := raw.body
	if raw.header.Get("X-Delegated") == c20Delegated {
		return "BDelegated"
	}
	if len(body) == 0 {
		return "BEmpty"
	}
	isHTML := false
	for _, ct := range raw.header.Values("Content-Type") {
		if strings.HasPrefix(ct, "text/html") {
			isHTML = true
		}
	}
	if isHTML {
		action, fields, ok := c20ParseForm(body)
		if !ok {
			fields.Add("!form-count", "not exactly one form")
		}
		return "(BForm " + c20SplitURL(action).coq(false) + " " + c20Values(fields) + ")"
	}
	var m map[string]interface{}
	if err := json.Unmarshal(body, &m); err != nil {
		return "(BJson [(\"!unparsable\", JS " + Q(string(body)) + ")])"
	}
	if kind == "introspection_response" {
		m = map[string]interface{}{"active": m["active"]}
	}
	return "(BJson " + c20JObj(m) + ")"
}

func (c *c20Call) obsCoq(raw c20Raw, same bool) string {
	loc := "None"
	if l := raw.header.Values("Location"); len(l) > 0 {
		loc = "(Some " + c20SplitURL(l[0]).coq(string(c.Mode) == "fragment") + ")"
	}
	return fmt.Sprintf("(mkObs %s %d %s %s %s %s %s %s)", B(raw.written), raw.status,
		hdrList(raw.header, "Cache-Control"), hdrList(raw.header, "Pragma"), hdrList(raw.header, "Content-Type"),
		loc, c20BodyCoq(c.Kind, raw), B(same))
}

func (c *c20Call) arCoq() string {
	ar := c.authorizeRequest()
	base, frag := "", ""
	q := url.Values{}
	if u := ar.RedirectURI; u != nil {
		cp := *u
		frag = cp.EscapedFragment()
		q = cp.Query()
		cp.RawQuery, cp.ForceQuery, cp.Fragment, cp.RawFragment = "", false, "", ""
		base = cp.String()
	}
	return fmt.Sprintf("(mkAr %s %s (mkUri %s %s %s) %s)", Q(string(c.Mode)), B(ar.IsRedirectURIValid()), Q(base), c20Values(q), Q(frag), Q(string(c.State)))
}

func (c *c20Call) callCoq() string {
	switch c.Kind {
	case "access_error", "access_error_req":
		return "(WAccessError " + c.Err.coq() + ")"
	case "access_response":
		return "(WAccessResponse " + c20FieldsCoq(c.Fields) + ")"
	case "authorize_error":
		return "(WAuthorizeError " + c.arCoq() + " " + c.Err.coq() + ")"
	case "authorize_response":
		return "(WAuthorizeResponse " + c.arCoq() + " " + c20Values(canonHeader(c.Custom)) + " " + c20KVs(c.Params) + ")"
	case "introspection_error":
		if c.Err == nil {
			return "(WIntrospectionError None)"
		}
		return "(WIntrospectionError (Some " + c.Err.coq() + "))"
	case "introspection_response":
		return "(WIntrospectionResponse " + B(c.Active) + ")"
	case "revocation":
		g := "None"
		if c.Err != nil {
			g = "(Some " + c.Err.coq() + ")"
		}
		return "(WRevocationResponse " + c20ErrCoq(fosite.ErrInvalidRequest, false, false) + " " + c20ErrCoq(fosite.ErrInvalidClient, false, false) + " " + g + ")"
	case "par_response":
		return "(WParResponse " + c20Values(canonHeader(c.Custom)) + " " + c20FieldsCoq(c.Fields) + ")"
	case "par_error":
		return "(WParError " + c.Err.coq() + ")"
	case "device_response":
		get := func(k string) string {
			for _, kv := range c.Fields {
				if string(kv.K) == k {
					return string(kv.V[0])
				}
			}
			return ""
		}
		return fmt.Sprintf("(WDeviceResponse %s %s %s %s %s %d %d)", c20Values(canonHeader(c.Custom)), Q(get("device_code")), Q(get("user_code")),
			Q(get("verification_uri")), Q(get("verification_uri_complete")), c.Exp, c.Ivl)
	}
	panic("callCoq: " + c.Kind)
}

// custom headers as the http.Header the responder carries (canonical keys)
func canonHeader(kvs []c20KV) url.Values {
	return url.Values(kvHeader(kvs))
}

func (c *c20Call) cfgCoq() string {
	return fmt.Sprintf("(mkCfg %s %s %s)", B(c.Legacy), B(c.Expose), QL(c.CustomModes))
}

func c20WriterCase(t *testing.T, c *c20Call) Case {
	raw := c.run(t, false)
	same := true
	if !c.Expose && c.Err != nil {
		same = raw.same(c.run(t, true))
	}
	key, _ := json.Marshal(c)
	nt := c.Err != nil || len(c.Params) > 0 || len(c.Custom) > 0 || len(c.Fields) > 0
	return Case{
		Coq:        fmt.Sprintf("KW %s %s %s", c.cfgCoq(), c.callCoq(), c.obsCoq(raw, same)),
		Replay:     c,
		NonTrivial: nt,
		Key:        string(key),
	}
}

// function level: GetDescription / MarshalJSON / ToValues of one error value
func c20ErrFnCase(t *testing.T, c *c20Call) Case {
	render := func(scrub bool) (string, []byte, url.Values, *fosite.RFC6749Error) {
		_, vals := c.Err.build(scrub)
		e := vals[0].WithLegacyFormat(c.ELegacy).WithExposeDebug(c.EExpose)
		js, err := json.Marshal(e)
		if err != nil {
			t.Fatalf("MarshalJSON: %v", err)
		}
		return e.GetDescription(), js, e.ToValues(), e
	}
	desc, js, vals, e := render(false)
	same := true
	if !c.EExpose {
		d2, j2, v2, _ := render(true)
		same = d2 == desc && bytes.Equal(js, j2) && v2.Encode() == vals.Encode()
	}
	var m map[string]interface{}
	if err := json.Unmarshal(js, &m); err != nil {
		m = map[string]interface{}{"!unparsable": string(js)}
	}
	// the URL channel: what a client decodes from the encoded values
	back, err := url.ParseQuery(vals.Encode())
	if err != nil {
		back = url.Values{"!unparsable": {vals.Encode()}}
	}
	key, _ := json.Marshal(c)
	return Case{
		Coq:        fmt.Sprintf("KE %s %s %s %s %s", c20ErrCoq(e, c.ELegacy, c.EExpose), Q(desc), c20JObj(m), c20Values(back), B(same)),
		Replay:     c,
		NonTrivial: e.HintField != "" || e.DebugField != "",
		Key:        string(key),
	}
}
