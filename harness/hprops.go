package hx

import (
	"encoding/json"
	"fmt"
	"testing"
)

type histProp struct {
	id       string
	profile  Profile
	module   string
	checkFn  string
	quickN   int
	thoroN   int
	nontriv  func(h *HHistory, obs []HObs) bool
	rule     string
}

func histKey(h *HHistory) string {
	b, _ := json.Marshal(h.Ops)
	return string(b)
}

func runHistProp(t *testing.T, e Env, hp *histProp) {
	out := NewOut(e.Out, hp.module, "hcase", hp.checkFn, 10)
	if e.Replay != nil {
		var h HHistory
		if err := json.Unmarshal(e.Replay, &h); err != nil {
			t.Fatal(err)
		}
		obs := runHistory(t, &h)
		out.Add(Case{Coq: coqHistory(&h, obs), Replay: &h, NonTrivial: true, Key: histKey(&h)})
		out.Notes["replay_observations"] = obs
		if err := out.Flush("replay"); err != nil {
			t.Fatal(err)
		}
		return
	}
	n := hp.quickN
	if e.Tier == "thorough" {
		n = hp.thoroN
	}
	r := NewRNG(e.Seed)
	for i := 0; i < n; i++ {
		h, obs := genHistory(t, r.Fork(), &hp.profile)
		opHistogram(out, h, obs)
		out.Add(Case{Coq: coqHistory(h, obs), Replay: h, NonTrivial: hp.nontriv(h, obs), Key: histKey(h)})
	}
	if err := out.Flush(hp.rule); err != nil {
		t.Fatal(err)
	}
}

func regHist(hp *histProp) {
	Register(hp.id, func(t *testing.T, e Env) { runHistProp(t, e, hp) })
}

// helpers for the non-triviality rules
func okOps(h *HHistory, obs []HObs, kind string) []int {
	var l []int
	for i, op := range h.Ops {
		if op.Kind == kind && obs[i].Err == "" {
			l = append(l, i)
		}
	}
	return l
}

func hasReplay(h *HHistory, obs []HObs, kind string) bool {
	used := map[int]bool{}
	for i, op := range h.Ops {
		if op.Kind != kind || op.Tok.Ref < 0 || op.Tok.Tamper {
			continue
		}
		if used[op.Tok.Ref] {
			return true
		}
		if obs[i].Err == "" {
			used[op.Tok.Ref] = true
		}
	}
	return false
}

func init() {
	base := Profile{WAuthorize: 18, WRedeem: 24, WRefresh: 22, WRevoke: 8, WIntrospect: 4, WAdvance: 8, WSetClient: 2,
		PKCE: 10, Bad: 12, ShortLives: 25, MinOps: 8, MaxOps: 28, Smuggle: 10}
	c01 := base
	c01.Name = "C01"
	regHist(&histProp{id: "C01", profile: c01, module: "Cases.CasesHist", checkFn: "check_corr_only", quickN: 120, thoroN: 4000,
		nontriv: func(h *HHistory, obs []HObs) bool { return hasReplay(h, obs, "redeem") },
		rule:    "seeded histories over authorize/redeem/refresh/revoke/introspect/advance/setclient with 2-4 clients; non-trivial = contains a second presentation of a code that was redeemed successfully; distinct by operation list"})
	_ = fmt.Sprint
}
