package hx

import (
	"encoding/json"
	"fmt"
	"os"
	"path/filepath"
	"sort"
	"testing"
)

type histProp struct {
	id       string
	profile  Profile
	module   string
	checkFn  string
	quickN   int
	thoroN   int
	nontriv  func(h *HHistory, obs []HObs) bool
	rule     string
}

func histKey(h *HHistory) string {
	b, _ := json.Marshal(h.Ops)
	return string(b)
}

func runHistProp(t *testing.T, e Env, hp *histProp) {
	out := NewOut(e.Out, hp.module, "hcase", hp.checkFn, 10)
	if e.Replay != nil {
		var h HHistory
		if err := json.Unmarshal(e.Replay, &h); err != nil {
			t.Fatal(err)
		}
		obs := runHistory(t, &h)
		out.Add(Case{Coq: coqHistory(&h, obs), Replay: &h, NonTrivial: true, Key: histKey(&h)})
		out.Notes["replay_observations"] = obs
		if err := out.Flush("replay"); err != nil {
			t.Fatal(err)
		}
		return
	}
	// minimised histories kept from earlier findings run first
	if files, _ := filepath.Glob(filepath.Join(os.Getenv("HX_CORPUS"), hp.id, "*.json")); len(files) > 0 {
		sort.Strings(files)
		for _, f := range files {
			b, err := os.ReadFile(f)
			if err != nil {
				t.Fatal(err)
			}
			var h HHistory
			if err := json.Unmarshal(b, &h); err != nil {
				t.Fatalf("%s: %v", f, err)
			}
			obs := runHistory(t, &h)
			opHistogram(out, &h, obs)
			out.Count("corpus")
			out.Add(Case{Coq: coqHistory(&h, obs), Replay: &h, NonTrivial: true, Key: histKey(&h)})
		}
	}
	n := hp.quickN
	if e.Tier == "thorough" {
		n = hp.thoroN
	}
	r := NewRNG(e.Seed)
	for i := 0; i < n; i++ {
		h, obs := genHistory(t, r.Fork(), &hp.profile)
		opHistogram(out, h, obs)
		out.Add(Case{Coq: coqHistory(h, obs), Replay: h, NonTrivial: hp.nontriv(h, obs), Key: histKey(h)})
	}
	if err := out.Flush(hp.rule); err != nil {
		t.Fatal(err)
	}
}

func regHist(hp *histProp) {
	Register(hp.id, func(t *testing.T, e Env) { runHistProp(t, e, hp) })
}

// helpers for the non-triviality rules
func okOps(h *HHistory, obs []HObs, kind string) []int {
	var l []int
	for i, op := range h.Ops {
		if op.Kind == kind && obs[i].Err == "" {
			l = append(l, i)
		}
	}
	return l
}

func hasReplay(h *HHistory, obs []HObs, kind string) bool {
	used := map[int]bool{}
	for i, op := range h.Ops {
		if op.Kind != kind || op.Tok.Ref < 0 || op.Tok.Tamper {
			continue
		}
		if used[op.Tok.Ref] {
			return true
		}
		if obs[i].Err == "" {
			used[op.Tok.Ref] = true
		}
	}
	return false
}

func countKind(h *HHistory, kind string) int {
	n := 0
	for _, op := range h.Ops {
		if op.Kind == kind {
			n++
		}
	}
	return n
}

// a probe that was active before an "advance" step and is inactive right after it
func expiryObserved(h *HHistory, obs []HObs) bool {
	for i, op := range h.Ops {
		if op.Kind != "advance" || i == 0 {
			continue
		}
		for j, p := range obs[i-1].Probes {
			if p != nil && j < len(obs[i].Probes) && obs[i].Probes[j] == nil {
				return true
			}
		}
	}
	return false
}

func init() {
	base := Profile{WAuthorize: 18, WRedeem: 24, WRefresh: 22, WRevoke: 8, WIntrospect: 4, WAdvance: 8, WSetClient: 2, WPassword: 5, WClientCreds: 1, WIntrospectEP: 2, WPush: 2, WAuthorizePAR: 2, WDeviceAuth: 3, WDecide: 3, WDevicePoll: 4,
		PKCE: 10, Bad: 12, ShortLives: 25, MinOps: 8, MaxOps: 28, Smuggle: 10, Hybrid: 12, Implicit: 8, JWT: 15, ClientLife: 30}
	mk := func(id string, f func(p *Profile)) Profile { p := base; p.Name = id; f(&p); return p }
	common := "seeded histories over authorize/redeem/refresh/revoke/introspect/advance/setclient with 2-4 clients, every access/refresh token probed after every step; distinct by operation list; non-trivial = "
	regHist(&histProp{id: "C01", profile: mk("C01", func(p *Profile) { p.RawStore = 15 }), module: "Cases.Monitors", checkFn: "check_C01", quickN: 500, thoroN: 5000,
		nontriv: func(h *HHistory, obs []HObs) bool { return hasReplay(h, obs, "redeem") },
		rule:    common + "contains a second presentation of a code that was redeemed successfully"})
	regHist(&histProp{id: "C02", profile: mk("C02", func(p *Profile) { p.WRedeem = 40; p.WRefresh = 8; p.Bad = 35; p.ShortLives = 60; p.Smuggle = 40; p.WAdvance = 14 }),
		module: "Cases.Monitors", checkFn: "check_C02", quickN: 500, thoroN: 5000,
		nontriv: func(h *HHistory, obs []HObs) bool {
			for i, op := range h.Ops {
				if op.Kind == "redeem" && op.Tok.Ref >= 0 && !op.Tok.Tamper && obs[i].Err != "" && obs[i].Err != "invalid_client" {
					return true
				}
			}
			return false
		},
		rule: common + "contains a refused redemption attempt of an issued code by an authenticated client (foreign client, other redirect_uri, expired, replay)"})
	regHist(&histProp{id: "C03", profile: mk("C03", func(p *Profile) { p.PKCE = 90; p.PkceFlags = true; p.WRedeem = 45; p.WRefresh = 5; p.WRevoke = 2; p.Bad = 25; p.WAdvance = 3 }),
		module: "Cases.Monitors", checkFn: "check_C03", quickN: 500, thoroN: 6000,
		nontriv: func(h *HHistory, obs []HObs) bool {
			att := map[int]int{}
			for _, op := range h.Ops {
				if op.Kind == "redeem" && op.Tok.Ref >= 0 {
					att[op.Tok.Ref]++
					if att[op.Tok.Ref] >= 2 {
						return true
					}
				}
			}
			return false
		},
		rule: common + "contains at least two redemption attempts on one code under randomised PKCE enforcement flags"})
	regHist(&histProp{id: "C04", profile: mk("C04", func(p *Profile) { p.WRefresh = 40; p.WRedeem = 18; p.MaxOps = 36; p.RawStore = 15 }),
		module: "Cases.Monitors", checkFn: "check_C04", quickN: 500, thoroN: 5000,
		nontriv: func(h *HHistory, obs []HObs) bool { return hasReplay(h, obs, "refresh") },
		rule:    common + "contains a second presentation of a refresh token that was exchanged successfully"})
	regHist(&histProp{id: "C05", profile: mk("C05", func(p *Profile) { p.WRefresh = 30; p.WSetClient = 10; p.Smuggle = 40; p.Bad = 22; p.WDeviceAuth, p.WDecide, p.WDevicePoll, p.WPassword = 12, 14, 18, 8; p.WRedeem = 16; p.NoRefreshScopes, p.NoRefreshGrant = 25, 20 }),
		module: "Cases.Monitors", checkFn: "check_C05", quickN: 500, thoroN: 5000,
		nontriv: func(h *HHistory, obs []HObs) bool {
			seenSet := false
			for i, op := range h.Ops {
				if op.Kind == "setclient" {
					seenSet = true
				}
				if op.Kind == "refresh" && op.Tok.Ref >= 0 && (seenSet || len(op.Smuggled) > 0) && obs[i].Err != "invalid_client" {
					return true
				}
			}
			return false
		},
		rule: common + "contains a refresh by an authenticated client after a registration change or with smuggled scope/audience parameters"})
	// the flow half of C12: accepted requests are covered by the registration, tokens carry the grant (judged as a part of ./check C12)
	regHist(&histProp{id: "C12H", profile: mk("C12H", func(p *Profile) {
		p.WAuthorize, p.WPassword, p.WClientCreds, p.WPush, p.WAuthorizePAR, p.WDeviceAuth, p.WDecide, p.WDevicePoll = 20, 12, 8, 8, 6, 8, 6, 6
		p.WRefresh, p.WRedeem, p.WSetClient, p.WRevoke, p.WAdvance = 16, 14, 12, 2, 3
		p.Hybrid, p.Implicit, p.Bad = 20, 20, 8
	}), module: "Cases.Monitors", checkFn: "check_C12H", quickN: 500, thoroN: 5000,
		nontriv: func(h *HHistory, obs []HObs) bool {
			for i, op := range h.Ops {
				switch op.Kind {
				case "authorize", "password", "clientcreds", "push", "device_auth":
					if obs[i].Err == "invalid_scope" || obs[i].Err == "invalid_request" {
						return true
					}
				}
			}
			return false
		},
		rule: common + "contains a request with scopes/audience that an endpoint refused as not covered (invalid_scope / invalid_request)"})
	regHist(&histProp{id: "C07", profile: mk("C07", func(p *Profile) { p.ShortLives = 85; p.WAdvance = 26; p.WIntrospect = 8; p.ClientLife = 60; p.WSetClient = 5; p.WPassword = 8; p.WClientCreds = 4; p.JWT = 30 }),
		module: "Cases.Monitors", checkFn: "check_C07", quickN: 500, thoroN: 5000,
		nontriv: expiryObserved,
		rule:    common + "some token is active before a clock advance and inactive right after it (an expiry was crossed)"})
	regHist(&histProp{id: "C08", profile: mk("C08", func(p *Profile) { p.WRevoke = 30; p.Bad = 40 }),
		module: "Cases.Monitors", checkFn: "check_C08", quickN: 500, thoroN: 5000,
		nontriv: func(h *HHistory, obs []HObs) bool {
			for i, op := range h.Ops {
				if op.Kind == "revoke" && op.Tok.Ref >= 0 && obs[i].Err == "" && i > 0 && op.Tok.Ref < len(obs[i-1].Probes) && obs[i-1].Probes[op.Tok.Ref] != nil {
					return true
				}
			}
			return false
		},
		rule: common + "contains an accepted revocation of a token that was active just before"})
	regHist(&histProp{id: "C09", profile: mk("C09", func(p *Profile) { p.WIntrospect = 18; p.WIntrospectEP = 22; p.WRevoke = 12 }),
		module: "Cases.Monitors", checkFn: "check_C09", quickN: 500, thoroN: 5000,
		nontriv: func(h *HHistory, obs []HObs) bool {
			act, inact := false, false
			for _, o := range obs {
				for _, p := range o.Probes {
					if p != nil {
						act = true
					} else {
						inact = true
					}
				}
			}
			return act && inact && countKind(h, "introspect")+countKind(h, "introspect_ep") > 0
		},
		rule: common + "the probes contain active and inactive answers and the history has explicit introspections (hints, required scopes, tampered tokens)"})
	regHist(&histProp{id: "C16", profile: mk("C16", func(p *Profile) { p.Contract = 35;
		p.WAuthorize, p.WRedeem, p.WRefresh, p.WRevoke, p.WPassword, p.WPush, p.WAuthorizePAR = 3, 3, 8, 3, 1, 0, 0
		p.WDeviceAuth, p.WDecide, p.WDevicePoll, p.WAdvance, p.Bad, p.ShortLives = 16, 16, 34, 10, 32, 45
	}), module: "Cases.Monitors", checkFn: "check_C16", quickN: 500, thoroN: 6000,
		nontriv: func(h *HHistory, obs []HObs) bool {
			polls := 0
			for _, op := range h.Ops {
				if op.Kind == "device_poll" && op.Tok.Ref >= 0 {
					polls++
				}
			}
			return polls >= 2 && countKind(h, "decide") > 0
		},
		rule: common + "at least two polls of issued device codes and one user decision (orders of poll / decision / expiry / replay, right and wrong client)"})
	regHist(&histProp{id: "C17", profile: mk("C17", func(p *Profile) {
		p.WAuthorize, p.WRedeem, p.WRefresh, p.WRevoke, p.WPassword, p.WDeviceAuth, p.WDecide, p.WDevicePoll = 6, 18, 3, 2, 1, 0, 0, 0
		p.WPush, p.WAuthorizePAR, p.WAdvance, p.Bad, p.ShortLives, p.ParEnforce, p.PKCE = 22, 34, 10, 22, 50, 30, 55
	}), module: "Cases.Monitors", checkFn: "check_C17", quickN: 500, thoroN: 6000,
		nontriv: func(h *HHistory, obs []HObs) bool {
			uses := 0
			for _, op := range h.Ops {
				if op.Kind == "authorize_par" && op.Tok.Ref >= 0 {
					uses++
				}
			}
			return uses >= 2
		},
		rule: common + "at least two authorization requests presenting issued request_uris (right / wrong client, twice, after clock advances, conflicting extra parameters), enforcement on in ~30% of the histories"})
	_ = fmt.Sprint
}
