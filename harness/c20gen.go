package hx

// C20: case generation.  Structured stream: every package-level Err* value x adversarial hint /
// debug texts x legacy/new format x debug on/off x every Write* function x response mode.
// Adversarial stream: wrapped chains, foreign errors, literal RFC6749Error values, hostile redirect
// URIs / states / custom headers.  All randomness derives from NewRNG(e.Seed).

import (
	"encoding/json"
	"fmt"
	"net/url"
	"testing"

	"github.com/ory/fosite"
)

func init() { Register("C20", runC20) }

func bs(l ...string) []BS {
	out := make([]BS, len(l))
	for i, s := range l {
		out[i] = BS(s)
	}
	return out
}

func c20RandLink(r *RNG, v string) c20Link {
	l := c20Link{Var: v}
	if v == "" {
		l.Name = BS(Pick(r, []string{"invalid_request", "custom_error", "server_error", "invalid_token", "weird \"name\""}))
		l.Desc = BS(c20Text(r))
		l.Code = Pick(r, []int{400, 401, 403, 404, 409, 418, 429, 500, 503})
	}
	if r.Chance(75) {
		l.SetHint = true
		l.Hint = BS(c20Text(r))
	}
	if v != "" && r.Chance(12) {
		l.SetDesc = true
		l.Desc = BS(c20Text(r))
	}
	l.Debug = BS(c20Debug(r))
	return l
}

func c20RandVar(r *RNG) string {
	if r.Chance(10) {
		return ""
	}
	return Pick(r, c20Vars())
}

// outer: "" = random
func c20RandChain(r *RNG, outer string, adversarial bool) *c20Chain {
	c := &c20Chain{}
	if outer == "" && adversarial && r.Chance(12) {
		// a foreign error only
		c.HasTail = true
		c.Tail = BS(c20DebugMark + " foreign: " + c20Text(r))
		c.Stack = r.Bool()
		return c
	}
	if outer == "" {
		outer = c20RandVar(r)
	}
	c.Links = append(c.Links, c20RandLink(r, outer))
	if adversarial {
		for n := 0; n < 2 && r.Chance(35); n++ {
			v := c20RandVar(r)
			if r.Chance(40) {
				// the combinations the writers branch on
				v = Pick(r, []string{"ErrInvalidRequest", "ErrInvalidClient", "ErrInactiveToken", "ErrRequestUnauthorized", "ErrNotFound"})
			}
			c.Links = append(c.Links, c20RandLink(r, v))
		}
		if r.Chance(20) {
			c.HasTail = true
			c.Tail = BS(c20DebugMark + " cause: " + c20Text(r))
		}
	}
	c.Stack = r.Chance(40)
	return c
}

var c20Redirects = []string{
	"https://app.example/cb",
	"https://app.example/cb?x=1&error=preset",
	"https://app.example/cb?state=old&a=b%20c&a=2",
	"http://localhost:8080/callback",
	"myapp://callback/path",
	"https://app.example/p%2Fq/cb?q=%26%3D",
	"https://app.example:8443/cb?error_description=registered&error_hint=h",
}

// invalid even when the client registered exactly this string
var c20BadRedirects = []string{
	"https://app.example/cb#frag",
	"/relative",
	"",
}

// well-formed but not registered
var c20ForeignRedirects = []string{
	"https://evil.example/cb",
	"javascript:alert(1)",
	"https://app.example/cb/../other",
}

var c20Modes = []string{"", "query", "fragment", "form_post", "jwt", "weird", "FORM_POST"}

func c20RandAuthorize(r *RNG, c *c20Call, wantValid bool) {
	c.Mode = BS(Pick(r, c20Modes))
	switch r.Intn(10) {
	case 0:
		c.CustomModes = []string{"jwt"}
	case 1:
		c.CustomModes = []string{"query", "jwt"}
	case 2:
		c.CustomModes = []string{"form_post"}
	}
	if wantValid {
		red := Pick(r, c20Redirects)
		if string(c.Mode) == "form_post" {
			red = Pick(r, c20Redirects[:4])
		}
		c.Redirect = BS(red)
		c.Registered = bs("https://first.example/cb", red)
	} else {
		if r.Bool() {
			c.Redirect = BS(Pick(r, c20BadRedirects))
			c.Registered = bs(string(c.Redirect))
		} else {
			c.Redirect = BS(Pick(r, append(append([]string{}, c20Redirects...), c20ForeignRedirects...)))
			c.Registered = bs("https://other.example/cb")
		}
	}
	c.State = BS(c20Text(r))
	if r.Chance(30) {
		c.State = BS("state-" + fmt.Sprint(r.Intn(1000000)))
	}
}

func c20RandCustom(r *RNG) []c20KV {
	pool := []c20KV{
		{K: "X-Custom", V: bs("v1")},
		{K: "Cache-Control", V: bs("public, max-age=3600")},
		{K: "cache-control", V: bs("private")},
		{K: "Pragma", V: bs("cache")},
		{K: "Content-Type", V: bs("text/plain")},
		{K: "X-Frame-Options", V: bs("DENY", "second")},
	}
	var out []c20KV
	seen := map[string]bool{}
	for n := r.Intn(4); n > 0; n-- {
		kv := Pick(r, pool)
		ck := url.Values(kvHeader([]c20KV{kv}))
		for k := range ck {
			if !seen[k] {
				seen[k] = true
				out = append(out, kv)
			}
		}
	}
	return out
}

func c20RandParams(r *RNG) []c20KV {
	keys := []string{"code", "state", "access_token", "token_type", "expires_in", "scope", "id_token", "x", "error", "a"}
	var out []c20KV
	seen := map[string]bool{}
	for n := r.Intn(5); n > 0; n-- {
		k := Pick(r, keys)
		if seen[k] {
			continue
		}
		seen[k] = true
		v := c20Text(r)
		if r.Chance(40) {
			v = "ory_ac_" + fmt.Sprint(r.Next()) + ".sig" + fmt.Sprint(r.Next())
		}
		kv := c20KV{K: BS(k), V: bs(v)}
		if r.Chance(10) {
			kv.V = append(kv.V, BS("second-"+c20Text(r)))
		}
		out = append(out, kv)
	}
	return out
}

func c20RandFields(r *RNG, base []string) []c20KV {
	var out []c20KV
	for _, k := range base {
		v := c20Text(r)
		if k == "expires_in" {
			v = fmt.Sprintf("#%d", r.Intn(100000))
		}
		out = append(out, c20KV{K: BS(k), V: bs(v)})
	}
	if r.Chance(50) {
		out = append(out, c20KV{K: BS(Pick(r, []string{"refresh_token", "id_token", "scope", "extra \"key\""})), V: bs(c20Text(r))})
	}
	return out
}

type c20Kind struct {
	Kind string `json:"kind"`
}

func c20Replay(t *testing.T, e Env, out *Out) {
	var k c20Kind
	if err := json.Unmarshal(e.Replay, &k); err != nil {
		t.Fatal(err)
	}
	switch k.Kind {
	case "table":
		out.Add(c20TableCase(t))
	case "sites":
		out.Add(c20SitesCase(t))
	case "hints":
		var rp c20SrcReplay
		_ = json.Unmarshal(e.Replay, &rp)
		for _, c := range c20HintCases(t) {
			if c.Replay.(c20SrcReplay).Name == rp.Name {
				out.Add(c)
			}
		}
	case "whitelist":
		var rp c20SrcReplay
		_ = json.Unmarshal(e.Replay, &rp)
		for _, c := range c20WhitelistCases(t) {
			if c.Replay.(c20SrcReplay).Name == rp.Name {
				out.Add(c)
			}
		}
	case "sanitize":
		var rp c20SanReplay
		if err := json.Unmarshal(e.Replay, &rp); err != nil {
			t.Fatal(err)
		}
		out.Add(c20SanitizeCase(&rp))
	case "store":
		var rp c20Flow
		if err := json.Unmarshal(e.Replay, &rp); err != nil {
			t.Fatal(err)
		}
		out.Add(c20StoreCase(t, &rp))
	case "errfn":
		var c c20Call
		if err := json.Unmarshal(e.Replay, &c); err != nil {
			t.Fatal(err)
		}
		out.Add(c20ErrFnCase(t, &c))
	default:
		var c c20Call
		if err := json.Unmarshal(e.Replay, &c); err != nil {
			t.Fatal(err)
		}
		out.Add(c20WriterCase(t, &c))
	}
	if err := out.Flush("replay"); err != nil {
		t.Fatal(err)
	}
}

func runC20(t *testing.T, e Env) {
	out := NewOut(e.Out, "Cases.CasesC20", "c20case", "check", 120)
	if e.Replay != nil {
		c20Replay(t, e, out)
		return
	}
	r := NewRNG(e.Seed)
	thorough := e.Tier == "thorough"
	mul := 1
	if thorough {
		mul = 12
	}
	addW := func(c *c20Call) {
		out.Add(c20WriterCase(t, c))
		out.Count("writer:" + c.Kind)
		fmtk := "new"
		if c.Legacy {
			fmtk = "legacy"
		}
		if c.Err != nil {
			out.Count(fmt.Sprintf("error-format:%s,debug-exposed:%v", fmtk, c.Expose))
		}
	}

	// ---- data read from the source
	out.Add(c20TableCase(t))
	out.Count("source:error-table")
	for _, c := range c20WhitelistCases(t) {
		out.Add(c)
		out.Count("source:whitelist")
	}
	out.Add(c20SitesCase(t))
	out.Count("source:storage-call-sites")
	for _, c := range c20HintCases(t) {
		out.Add(c)
		out.Count("source:error-text-in-hint-sites")
	}
	// the table read from the source names only variables the harness can exercise
	for _, en := range c20ErrorTable(t) {
		if _, ok := c20Table[en.Var]; !ok {
			t.Fatalf("errors.go defines %s, which the harness does not know; add it to c20Table", en.Var)
		}
	}

	vars := c20Vars()
	cfgs := [][2]bool{{false, false}, {false, true}, {true, false}, {true, true}}

	// ---- function level: every Err* x texts x legacy x expose
	for _, v := range vars {
		for _, cf := range cfgs {
			for n := 0; n < 3*mul; n++ {
				c := &c20Call{Kind: "errfn", ELegacy: cf[0], EExpose: cf[1], Err: &c20Chain{Links: []c20Link{c20RandLink(r, v)}}}
				out.Add(c20ErrFnCase(t, c))
				out.Count("errfn")
			}
		}
	}
	for n := 0; n < 120*mul; n++ {
		c := &c20Call{Kind: "errfn", ELegacy: r.Bool(), EExpose: r.Bool(), Err: &c20Chain{Links: []c20Link{c20RandLink(r, "")}}}
		out.Add(c20ErrFnCase(t, c))
		out.Count("errfn-literal")
	}

	// ---- JSON error writers: every Err* x 4 configurations, structured (single value) + adversarial (chains)
	for _, kind := range []string{"access_error", "par_error", "introspection_error", "revocation"} {
		for _, v := range vars {
			for _, cf := range cfgs {
				c := &c20Call{Kind: kind, Legacy: cf[0], Expose: cf[1], Err: c20RandChain(r, v, false)}
				if kind == "access_error" && r.Bool() {
					c.Kind = "access_error_req"
				}
				if kind == "par_error" {
					c20RandAuthorize(r, c, r.Bool())
					c.CustomModes = nil
				}
				addW(c)
			}
		}
		for n := 0; n < 60*mul; n++ {
			c := &c20Call{Kind: kind, Legacy: r.Bool(), Expose: r.Bool(), Err: c20RandChain(r, "", true)}
			if kind == "par_error" {
				c20RandAuthorize(r, c, r.Bool())
				c.CustomModes = nil
			}
			addW(c)
		}
	}
	// directed: the error combinations the introspection / revocation writers branch on, in both wrapping orders
	branch := []string{"ErrInactiveToken", "ErrInvalidRequest", "ErrRequestUnauthorized", "ErrInvalidClient", "ErrNotFound", "ErrServerError"}
	for _, kind := range []string{"introspection_error", "revocation"} {
		for _, a := range branch {
			for _, b := range branch {
				if a == b {
					continue
				}
				cf := Pick(r, cfgs)
				c := &c20Call{Kind: kind, Legacy: cf[0], Expose: cf[1],
					Err: &c20Chain{Links: []c20Link{c20RandLink(r, a), c20RandLink(r, b)}, Stack: r.Bool()}}
				addW(c)
			}
		}
	}
	addW(&c20Call{Kind: "introspection_error"})
	addW(&c20Call{Kind: "revocation"})
	addW(&c20Call{Kind: "revocation", Expose: true, Legacy: true})

	// ---- authorize errors: every Err* x every mode x valid/invalid redirect (configuration sampled), then adversarial
	for _, v := range vars {
		for _, mode := range c20Modes {
			for _, valid := range []bool{true, false} {
				if !valid && !thorough && r.Chance(50) {
					continue
				}
				cf := Pick(r, cfgs)
				c := &c20Call{Kind: "authorize_error", Legacy: cf[0], Expose: cf[1], Err: c20RandChain(r, v, false)}
				c20RandAuthorize(r, c, valid)
				c.Mode = BS(mode)
				if mode == "form_post" && valid {
					c.Redirect = BS(Pick(r, c20Redirects[:4]))
					c.Registered = bs(string(c.Redirect))
				}
				addW(c)
			}
		}
	}
	for n := 0; n < 300*mul; n++ {
		c := &c20Call{Kind: "authorize_error", Legacy: r.Bool(), Expose: r.Bool(), Err: c20RandChain(r, "", true)}
		c20RandAuthorize(r, c, r.Chance(75))
		addW(c)
	}

	// ---- success writers
	for n := 0; n < 350*mul; n++ {
		c := &c20Call{Kind: "authorize_response", Legacy: r.Bool(), Expose: r.Bool(), Custom: c20RandCustom(r), Params: c20RandParams(r)}
		c20RandAuthorize(r, c, true)
		if r.Chance(10) && string(c.Mode) != "form_post" {
			c.Redirect = BS("https://app.example/cb?keep=1#registered-fragment")
		}
		addW(c)
	}
	for n := 0; n < 80*mul; n++ {
		addW(&c20Call{Kind: "access_response", Fields: c20RandFields(r, []string{"access_token", "token_type", "expires_in"})})
		addW(&c20Call{Kind: "par_response", Custom: c20RandCustom(r), Fields: c20RandFields(r, []string{"request_uri", "expires_in"})})
		d := &c20Call{Kind: "device_response", Custom: c20RandCustom(r), Exp: int64(r.Intn(10000)), Ivl: r.Intn(3) * 5,
			Fields: c20RandFields(r, []string{"device_code", "user_code", "verification_uri"})[:3]}
		if r.Bool() {
			d.Fields = append(d.Fields, c20KV{K: "verification_uri_complete", V: bs(c20Text(r))})
		}
		addW(d)
	}
	addW(&c20Call{Kind: "introspection_response", Active: true})
	addW(&c20Call{Kind: "introspection_response", Active: false})

	// ---- Request.Sanitize, function level
	for n := 0; n < 200*mul; n++ {
		out.Add(c20SanitizeCase(c20RandSanitize(r)))
		out.Count("sanitize")
	}

	// ---- storage traffic of the flows
	c20StoreCases(t, e, r, out)

	out.Notes["error_variables"] = len(vars)
	out.Notes["static_errors"] = fmt.Sprintf("ErrInvalidRequest=%d ErrInvalidClient=%d", fosite.ErrInvalidRequest.CodeField, fosite.ErrInvalidClient.CodeField)
	if err := out.Flush("error renderers: every Err* x 4 (format, debug) configurations x seeded adversarial hint/debug texts, plus literal errors; " +
		"writers: every Err* x configuration for the JSON error writers, every Err* x response mode x redirect validity for WriteAuthorizeError, " +
		"seeded wrapped chains / foreign errors / hostile states, custom headers and parameters for the success writers; " +
		"storage: every flow with injected recognisable secrets. non-trivial = carries an error, parameters, custom headers or a storage log; distinct by the full input record"); err != nil {
		t.Fatal(err)
	}
}
