package hx

import (
	"encoding/json"
	"fmt"
	"os"
	"path/filepath"
	"sort"
	"strings"
)

// Case is one unit of correspondence: the Coq term carries the inputs and the implementation's
// observation; Replay is what the harness needs to execute exactly this case again.
type Case struct {
	Coq        string
	Replay     any
	NonTrivial bool
	Key        string // canonical form, for counting distinct cases
}

type Out struct {
	Dir        string
	Module     string // Coq module defining the case type and `check`
	CaseType   string
	CheckFn    string
	ShardSize  int
	cases      []Case
	Hist       map[string]int
	Samples    []any
	Notes      map[string]any
	keys       map[string]bool
	nontrivial int
}

func NewOut(dir, module, caseType, checkFn string, shard int) *Out {
	return &Out{Dir: dir, Module: module, CaseType: caseType, CheckFn: checkFn, ShardSize: shard,
		Hist: map[string]int{}, Notes: map[string]any{}, keys: map[string]bool{}}
}

func (o *Out) Count(k string) { o.Hist[k]++ }

func (o *Out) Add(c Case) {
	o.cases = append(o.cases, c)
	if c.NonTrivial && !o.keys[c.Key] {
		o.keys[c.Key] = true
		o.nontrivial++
	}
	if len(o.Samples) < 3 && c.NonTrivial {
		o.Samples = append(o.Samples, c.Replay)
	}
}

func (o *Out) Len() int { return len(o.cases) }

func (o *Out) Flush(rule string) error {
	if err := os.MkdirAll(o.Dir, 0o755); err != nil {
		return err
	}
	old, _ := filepath.Glob(filepath.Join(o.Dir, "cases_*.v"))
	for _, f := range old {
		os.Remove(f)
	}
	jl, err := os.Create(filepath.Join(o.Dir, "cases.jsonl"))
	if err != nil {
		return err
	}
	defer jl.Close()
	enc := json.NewEncoder(jl)
	shards := 0
	for start := 0; start < len(o.cases); start += o.ShardSize {
		end := start + o.ShardSize
		if end > len(o.cases) {
			end = len(o.cases)
		}
		var b strings.Builder
		fmt.Fprintf(&b, "From FositeModel Require Import %s.\n", o.Module)
		fmt.Fprintf(&b, "Definition cases : list %s := [\n", o.CaseType)
		for i := start; i < end; i++ {
			b.WriteString("  ")
			b.WriteString(o.cases[i].Coq)
			if i+1 < end {
				b.WriteString(";")
			}
			b.WriteString("\n")
			if err := enc.Encode(o.cases[i].Replay); err != nil {
				return err
			}
		}
		b.WriteString("].\n")
		fmt.Fprintf(&b, "Definition bad := Eval vm_compute in failures %s cases.\nPrint bad.\n", o.CheckFn)
		name := filepath.Join(o.Dir, fmt.Sprintf("cases_%04d.v", shards))
		if err := os.WriteFile(name, []byte(b.String()), 0o644); err != nil {
			return err
		}
		shards++
	}
	if len(o.Samples) == 0 && len(o.cases) > 0 {
		o.Samples = append(o.Samples, o.cases[0].Replay)
	}
	hk := make([]string, 0, len(o.Hist))
	for k := range o.Hist {
		hk = append(hk, k)
	}
	sort.Strings(hk)
	meta := map[string]any{
		"evaluations":         len(o.cases),
		"distinct_nontrivial": o.nontrivial,
		"rule":                rule,
		"samples":             o.Samples,
		"histogram":           o.Hist,
		"shards":              shards,
		"shard_size":          o.ShardSize,
		"notes":               o.Notes,
	}
	mb, _ := json.MarshalIndent(meta, "", " ")
	return os.WriteFile(filepath.Join(o.Dir, "meta.json"), mb, 0o644)
}
