package hx

// C06 — only server-minted, untampered tokens are accepted.
//
// Opaque tokens: the harness mints codes, access tokens, refresh tokens and device codes through a
// real provider (compose.ComposeAllEnabled over storage.NewMemoryStore), derives presented strings
// from them with a catalogue of mutations, and observes
//   - the Validate* methods of the prefixed / unprefixed HMAC strategies and of the device strategy,
//   - the endpoints (IntrospectToken, NewAccessRequest for refresh_token / authorization_code /
//     device_code), under many current + rotated secret configurations.
// For every presented string it computes, independently of fosite, what the model takes as input:
// decodability of the two parts and, per configured secret, whether HMAC(pad32(secret), key part)
// equals the signature part (crypto/hmac).  The symbolic description (which key bytes, which secret
// produced the signature part) comes from HOW the string was derived, not from those computations.

import (
	"bytes"
	"context"
	"crypto/hmac"
	"crypto/rand"
	"crypto/sha1"
	"crypto/sha256"
	"crypto/sha512"
	"encoding/base64"
	"encoding/hex"
	"encoding/json"
	"errors"
	"fmt"
	"hash"
	"net/http"
	"net/http/httptest"
	"net/url"
	"sort"
	"strings"
	"testing"
	"time"

	"github.com/ory/fosite"
	"github.com/ory/fosite/compose"
	"github.com/ory/fosite/handler/oauth2"
	"github.com/ory/fosite/storage"
	enigma "github.com/ory/fosite/token/hmac"
)

type c06Sec struct {
	Hex string `json:"hex"`
	ID  int    `json:"id"`
}

type c06Sym struct {
	Key    int `json:"key"`
	SigSec int `json:"sig_secret"` // -1: the signature part is no MAC at all
	SigKey int `json:"sig_key"`
}

type c06Replay struct {
	Kind     string   `json:"kind"` // validate e2e mint usersig fresh jwt jwt_e2e jwt_gen
	Label    string   `json:"label,omitempty"`
	TKind    string   `json:"token_kind,omitempty"` // at rt ac dc
	Prefixed bool     `json:"prefixed,omitempty"`
	Raw      string   `json:"raw,omitempty"`
	Global   *c06Sec  `json:"global,omitempty"`
	Rotated  []c06Sec `json:"rotated,omitempty"`
	Hasher   string   `json:"hasher,omitempty"`
	Sym      *c06Sym  `json:"sym,omitempty"`
	Endpoint string   `json:"endpoint,omitempty"`
	Stored   []string `json:"stored,omitempty"`
	Entropy  int      `json:"entropy,omitempty"`
	N        int      `json:"n,omitempty"`
	JKey     string   `json:"jwt_key,omitempty"`
	Impl     string   `json:"impl"`
}

// ---------------------------------------------------------------- hashing, facts

func c06HashNew(name string) func() hash.Hash {
	switch name {
	case "sha256":
		return sha256.New
	case "sha512":
		return sha512.New
	case "sha1":
		return sha1.New
	}
	return sha512.New512_256
}

// what is put into fosite.Config.HMACHasher ("" = nil = the library default)
func c06ConfHasher(name string) func() hash.Hash {
	if name == "" {
		return nil
	}
	return c06HashNew(name)
}

func c06Pad32(secret []byte) []byte {
	var k [32]byte
	copy(k[:], secret)
	return k[:]
}

func c06Mac(hasher string, secret, msg []byte) []byte {
	h := hmac.New(c06HashNew(hasher), c06Pad32(secret))
	h.Write(msg)
	return h.Sum(nil)
}

var c06b64 = base64.RawURLEncoding

func c06Prefix(kind string) string { return "ory_" + kind + "_" }

// the strategy's view of the presented string, computed without fosite
func c06Parts(kind string, prefixed bool, raw string) (kd, sd bool, kb, sb []byte) {
	t := raw
	if kind == "dc" || prefixed {
		t = strings.TrimPrefix(t, c06Prefix(kind))
	}
	i := strings.IndexByte(t, '.')
	if i < 0 {
		return false, false, nil, nil
	}
	kb, e1 := c06b64.DecodeString(t[:i])
	sb, e2 := c06b64.DecodeString(t[i+1:])
	return e1 == nil, e2 == nil, kb, sb
}

type c06Conf struct {
	global  []byte
	rotated [][]byte
	hasher  string
}

type c06IDs struct {
	sec  map[string]int
	next int
}

func (t *c06IDs) secID(hasher string, secret []byte) int {
	k := hasher + "|" + hex.EncodeToString(c06Pad32(secret))
	if id, ok := t.sec[k]; ok {
		return id
	}
	t.next++
	t.sec[k] = t.next
	return t.next
}

func (t *c06IDs) fresh() int { t.next++; return t.next }

func newC06IDs() *c06IDs { return &c06IDs{sec: map[string]int{}, next: 0} }

// ---------------------------------------------------------------- the implementation's verdicts

func c06Class(err error, noKeys bool) string {
	if err == nil {
		return "ok"
	}
	var ce base64.CorruptInputError
	switch {
	case errors.Is(err, fosite.ErrTokenSignatureMismatch):
		return "mismatch"
	case errors.Is(err, fosite.ErrInvalidTokenFormat):
		return "format"
	case errors.As(err, &ce):
		return "decode"
	case errors.Is(err, fosite.ErrTokenExpired), errors.Is(err, fosite.ErrDeviceExpiredToken):
		return "expired"
	}
	var rfc *fosite.RFC6749Error
	if errors.As(err, &rfc) {
		return "rfc:" + rfc.ErrorField
	}
	// untyped configuration errors of hmacsha.go: short secret / no secret at all
	if noKeys {
		return "nosecret"
	}
	return "short"
}

// a panic inside the library is an observation ("panic"), not a harness failure
func c06Guard(f func() string) (res string) {
	defer func() {
		if r := recover(); r != nil {
			res = "panic"
		}
	}()
	return f()
}

// projected error: "<RFC error name>:<HTTP status>", "" for success
func c06ErrName(err error) string {
	if err == nil {
		return ""
	}
	e := fosite.ErrorToRFC6749Error(err)
	return fmt.Sprintf("%s:%d", e.ErrorField, e.CodeField)
}

func c06CoqRes(class string) string {
	switch class {
	case "ok":
		return "None"
	case "mismatch":
		return "(Some EMismatch)"
	case "format":
		return "(Some EFormat)"
	case "decode":
		return "(Some EDecode)"
	case "short":
		return "(Some EShort)"
	case "nosecret":
		return "(Some ENoSecret)"
	}
	return ""
}

func c06FositeConf(c c06Conf) *fosite.Config {
	return &fosite.Config{GlobalSecret: c.global, RotatedGlobalSecrets: c.rotated, HMACHasher: c06ConfHasher(c.hasher)}
}

func c06ImplValidate(kind string, prefixed bool, raw string, c c06Conf) string {
	return c06Guard(func() string { return c06ImplValidate0(kind, prefixed, raw, c) })
}

func c06ImplValidate0(kind string, prefixed bool, raw string, c c06Conf) string {
	ctx := context.Background()
	conf := c06FositeConf(c)
	req := &fosite.Request{RequestedAt: time.Now().UTC(), Session: &fosite.DefaultSession{}}
	var err error
	if kind == "dc" {
		err = compose.NewDeviceStrategy(conf).ValidateDeviceCode(ctx, &fosite.DeviceRequest{Request: *req}, raw)
	} else {
		var s oauth2.CoreStrategy
		if prefixed {
			s = compose.NewOAuth2HMACStrategy(conf)
		} else {
			s = oauth2.NewHMACSHAStrategyUnPrefixed(&enigma.HMACStrategy{Config: conf}, conf)
		}
		switch kind {
		case "at":
			err = s.ValidateAccessToken(ctx, req, raw)
		case "rt":
			err = s.ValidateRefreshToken(ctx, req, raw)
		case "ac":
			err = s.ValidateAuthorizeCode(ctx, req, raw)
		}
	}
	return c06Class(err, len(c.global) == 0 && len(c.rotated) == 0)
}

// ---------------------------------------------------------------- Coq printers

func c06CoqKind(k string) string {
	return map[string]string{"at": "KAt", "rt": "KRt", "ac": "KAc", "dc": "KDc"}[k]
}

func c06CoqSym(s c06Sym) string {
	if s.SigSec < 0 {
		return fmt.Sprintf("(ST %d SJunk)", s.Key)
	}
	return fmt.Sprintf("(ST %d (SMac %d %d))", s.Key, s.SigSec, s.SigKey)
}

type c06SF struct {
	id, ln int
	mac    bool
}

func (f c06SF) coq() string { return fmt.Sprintf("(SF %d %d %s)", f.id, f.ln, B(f.mac)) }

// facts for one configured secret
func c06Fact(ids *c06IDs, hasher string, secret []byte, kd, sd bool, kb, sb []byte) c06SF {
	mac := kd && sd && hmac.Equal(c06Mac(hasher, secret, kb), sb)
	return c06SF{ids.secID(hasher, secret), len(secret), mac}
}

func c06ConfFacts(ids *c06IDs, c c06Conf, kd, sd bool, kb, sb []byte) (string, string, c06Sec, []c06Sec) {
	g := c06Fact(ids, c.hasher, c.global, kd, sd, kb, sb)
	rs := make([]string, len(c.rotated))
	rsec := make([]c06Sec, len(c.rotated))
	for i, s := range c.rotated {
		f := c06Fact(ids, c.hasher, s, kd, sd, kb, sb)
		rs[i] = f.coq()
		rsec[i] = c06Sec{hex.EncodeToString(s), f.id}
	}
	return g.coq(), L(rs), c06Sec{hex.EncodeToString(c.global), g.id}, rsec
}

func c06ValCase(ids *c06IDs, label, kind string, prefixed bool, raw string, sym c06Sym, c c06Conf) Case {
	kd, sd, kb, sb := c06Parts(kind, prefixed, raw)
	impl := c06ImplValidate(kind, prefixed, raw, c)
	g, rot, gsec, rsec := c06ConfFacts(ids, c, kd, sd, kb, sb)
	res := c06CoqRes(impl)
	if res == "" { // an observation the model cannot produce (panic, foreign error class): make the disagreement visible
		res = "(Some ENoSecret)"
		if len(c.global) == 0 && len(c.rotated) == 0 {
			res = "(Some EShort)"
		}
	}
	return Case{
		Coq: fmt.Sprintf("KVal %s %s %s %s %s %s %s %s %s", B(prefixed), c06CoqKind(kind), Q(raw), B(kd), B(sd), c06CoqSym(sym), g, rot, res),
		Replay: c06Replay{Kind: "validate", Label: label, TKind: kind, Prefixed: prefixed, Raw: raw, Global: &gsec, Rotated: rsec,
			Hasher: c.hasher, Sym: &sym, Impl: impl},
		NonTrivial: kd && sd,
		Key:        fmt.Sprintf("v|%s|%v|%s|%s|%v", kind, prefixed, raw, gsec.Hex, rsec),
	}
}

// ---------------------------------------------------------------- the provider world

type c06Minted struct {
	kind  string
	raw   string
	K, S  string // the two base64 parts (K without prefix)
	kb    []byte
	sb    []byte
	keyID int
}

type c06World struct {
	t       *testing.T
	ids     *c06IDs
	conf    *fosite.Config
	store   *storage.MemoryStore
	prov    fosite.OAuth2Provider
	A       []byte
	hasher  string
	entropy int
	secA    int
	toks    map[string][]c06Minted
	all     []string // every minted value, for the freshness measurement
}

const c06Redirect = "https://app.example/cb"

func c06Client() *fosite.DefaultClient {
	return &fosite.DefaultClient{
		ID: "c0", Secret: hashSecret("secret-of-c0"), RedirectURIs: []string{c06Redirect},
		GrantTypes:    []string{"authorization_code", "refresh_token", "urn:ietf:params:oauth:grant-type:device_code", "client_credentials"},
		ResponseTypes: []string{"code"}, Scopes: []string{"offline", "photos"},
	}
}

func (w *c06World) post(path string, form url.Values) *http.Request {
	req := httptest.NewRequest("POST", path, strings.NewReader(form.Encode()))
	req.Header.Set("Content-Type", "application/x-www-form-urlencoded")
	req.SetBasicAuth("c0", "secret-of-c0")
	return req
}

func (w *c06World) split(kind, raw string) c06Minted {
	t := strings.TrimPrefix(raw, c06Prefix(kind))
	i := strings.IndexByte(t, '.')
	if i < 0 {
		w.t.Fatalf("minted %s without a dot: %q", kind, raw)
	}
	kb, e1 := c06b64.DecodeString(t[:i])
	sb, e2 := c06b64.DecodeString(t[i+1:])
	if e1 != nil || e2 != nil {
		w.t.Fatalf("minted %s does not decode: %q", kind, raw)
	}
	w.all = append(w.all, raw)
	return c06Minted{kind: kind, raw: raw, K: t[:i], S: t[i+1:], kb: kb, sb: sb, keyID: w.ids.fresh()}
}

func (w *c06World) mintCode() string {
	ctx := context.Background()
	q := url.Values{"client_id": {"c0"}, "response_type": {"code"}, "state": {"state-0123456789"}, "redirect_uri": {c06Redirect}, "scope": {"offline photos"}}
	ar, err := w.prov.NewAuthorizeRequest(ctx, httptest.NewRequest("GET", "/auth?"+q.Encode(), nil))
	if err != nil {
		w.t.Fatalf("authorize request: %v", err)
	}
	ar.GrantScope("offline")
	ar.GrantScope("photos")
	resp, err := w.prov.NewAuthorizeResponse(ctx, ar, &fosite.DefaultSession{Subject: "peter"})
	if err != nil {
		w.t.Fatalf("authorize response: %v", err)
	}
	return resp.GetCode()
}

// complete redemption of a genuine code; ok=false when the provider refuses it
func (w *c06World) redeem(code string) (at, rt string, ok bool) {
	ctx := context.Background()
	form := url.Values{"grant_type": {"authorization_code"}, "code": {code}, "redirect_uri": {c06Redirect}}
	ar, err := w.prov.NewAccessRequest(ctx, w.post("/token", form), &fosite.DefaultSession{})
	if err != nil {
		return "", "", false
	}
	resp, err := w.prov.NewAccessResponse(ctx, ar)
	if err != nil {
		return "", "", false
	}
	rt, _ = resp.GetExtra("refresh_token").(string)
	return resp.GetAccessToken(), rt, rt != ""
}

// a genuine, freshly minted code that the provider does not honour: recorded as an ordinary case
// (the model honours it), instead of aborting the run
func (w *c06World) refusedGenuine(out *Out, code string) {
	m := w.split("ac", code)
	out.Add(w.e2eCase("genuine-code-refused", "redeem", "ac", code, c06Sym{m.keyID, w.secA, m.keyID}, c06Conf{global: w.A, hasher: w.hasher}))
	out.Count("genuine-code-refused")
}

func (w *c06World) mintDevice() string {
	ctx := context.Background()
	form := url.Values{"client_id": {"c0"}, "scope": {"offline photos"}}
	dr, err := w.prov.NewDeviceRequest(ctx, w.post("/device/auth", form))
	if err != nil {
		w.t.Fatalf("device request: %v", fosite.ErrorToRFC6749Error(err).WithExposeDebug(true).GetDescription())
	}
	resp, err := w.prov.NewDeviceResponse(ctx, dr, &fosite.DefaultSession{Subject: "peter"})
	if err != nil {
		w.t.Fatalf("device response: %v", err)
	}
	code := resp.GetDeviceCode()
	sig, _ := compose.NewDeviceStrategy(w.conf).DeviceCodeSignature(ctx, code)
	d, ok := w.store.DeviceAuths[sig]
	if !ok {
		w.t.Fatalf("device session not stored under the signature part")
	}
	d.SetUserCodeState(fosite.UserCodeAccepted)
	d.GrantScope("offline")
	return code
}

func (w *c06World) mintPAR() string {
	ctx := context.Background()
	form := url.Values{"client_id": {"c0"}, "response_type": {"code"}, "state": {"state-0123456789"}, "redirect_uri": {c06Redirect}, "scope": {"photos"}}
	ar, err := w.prov.NewPushedAuthorizeRequest(ctx, w.post("/par", form))
	if err != nil {
		w.t.Fatalf("par request: %v", fosite.ErrorToRFC6749Error(err).WithExposeDebug(true).GetDescription())
	}
	resp, err := w.prov.NewPushedAuthorizeResponse(ctx, ar, &fosite.DefaultSession{})
	if err != nil {
		w.t.Fatalf("par response: %v", err)
	}
	return resp.GetRequestURI()
}

func newC06World(t *testing.T, ids *c06IDs, A []byte, hasher string, entropy int) *c06World {
	w := &c06World{t: t, ids: ids, A: A, hasher: hasher, entropy: entropy, toks: map[string][]c06Minted{}}
	w.conf = &fosite.Config{
		GlobalSecret: A, TokenEntropy: entropy, HMACHasher: c06ConfHasher(hasher),
		RefreshTokenScopes: []string{}, DeviceVerificationURL: "https://as.example/device",
		TokenURL: "https://as.example/token", SendDebugMessagesToClients: true,
	}
	w.store = storage.NewMemoryStore()
	w.store.Clients["c0"] = c06Client()
	w.prov = compose.ComposeAllEnabled(w.conf, w.store, theKey())
	w.secA = ids.secID(hasher, A)
	return w
}

func (w *c06World) mintAll(out *Out) bool {
	for i := 0; i < 2; i++ {
		code := w.mintCode()
		at, rt, ok := w.redeem(code)
		if !ok {
			w.refusedGenuine(out, code)
			return false
		}
		w.toks["at"] = append(w.toks["at"], w.split("at", at))
		w.toks["rt"] = append(w.toks["rt"], w.split("rt", rt))
	}
	for i := 0; i < 2; i++ {
		w.toks["ac"] = append(w.toks["ac"], w.split("ac", w.mintCode()))
		w.toks["dc"] = append(w.toks["dc"], w.split("dc", w.mintDevice()))
	}
	return true
}

func (w *c06World) stored(kind string) []string {
	var out []string
	switch kind {
	case "at":
		for k := range w.store.AccessTokens {
			out = append(out, k)
		}
	case "rt":
		for k := range w.store.RefreshTokens {
			out = append(out, k)
		}
	case "ac":
		for k := range w.store.AuthorizeCodes {
			out = append(out, k)
		}
	case "dc":
		for k := range w.store.DeviceAuths {
			out = append(out, k)
		}
	}
	sort.Strings(out)
	return out
}

// one end-to-end presentation; "" = honoured
func (w *c06World) present(ep, kind, raw string, c c06Conf) string {
	return c06Guard(func() string { return w.present0(ep, kind, raw, c) })
}

func (w *c06World) present0(ep, kind, raw string, c c06Conf) string {
	ctx := context.Background()
	w.conf.GlobalSecret, w.conf.RotatedGlobalSecrets, w.conf.HMACHasher = c.global, c.rotated, c06ConfHasher(c.hasher)
	defer func() {
		w.conf.GlobalSecret, w.conf.RotatedGlobalSecrets, w.conf.HMACHasher = w.A, nil, c06ConfHasher(w.hasher)
	}()
	switch ep {
	case "introspect":
		use := fosite.AccessToken
		if kind == "rt" {
			use = fosite.RefreshToken
		}
		if _, _, err := w.prov.IntrospectToken(ctx, raw, use, &fosite.DefaultSession{}); err != nil {
			return "inactive"
		}
		return ""
	case "refresh":
		form := url.Values{"grant_type": {"refresh_token"}, "refresh_token": {raw}}
		_, err := w.prov.NewAccessRequest(ctx, w.post("/token", form), &fosite.DefaultSession{})
		return c06ErrName(err)
	case "redeem":
		form := url.Values{"grant_type": {"authorization_code"}, "code": {raw}, "redirect_uri": {c06Redirect}}
		_, err := w.prov.NewAccessRequest(ctx, w.post("/token", form), &fosite.DefaultSession{})
		return c06ErrName(err)
	case "device":
		form := url.Values{"grant_type": {"urn:ietf:params:oauth:grant-type:device_code"}, "device_code": {raw}, "client_id": {"c0"}}
		_, err := w.prov.NewAccessRequest(ctx, w.post("/token", form), &fosite.DefaultSession{})
		return c06ErrName(err)
	}
	w.t.Fatalf("endpoint %q", ep)
	return ""
}

var c06CoqEp = map[string]string{"introspect": "EpIntrospect", "refresh": "EpRefresh", "redeem": "EpRedeem", "device": "EpDevice"}

func (w *c06World) e2eCase(label, ep, kind, raw string, sym c06Sym, c c06Conf) Case {
	kd, sd, kb, sb := c06Parts(kind, true, raw)
	stored := w.stored(kind)
	impl := w.present(ep, kind, raw, c)
	g, rot, gsec, rsec := c06ConfFacts(w.ids, c, kd, sd, kb, sb)
	return Case{
		Coq: fmt.Sprintf("KE2E %s %s %s %s %s %s %s %s %s %s", c06CoqEp[ep], c06CoqKind(kind), QL(stored), Q(raw), B(kd), B(sd), c06CoqSym(sym), g, rot, Q(impl)),
		Replay: c06Replay{Kind: "e2e", Label: label, Endpoint: ep, TKind: kind, Prefixed: true, Raw: raw, Global: &gsec, Rotated: rsec,
			Hasher: c.hasher, Sym: &sym, Stored: stored, Impl: impl},
		NonTrivial: kd && sd,
		Key:        fmt.Sprintf("e|%s|%s|%s|%s|%v", ep, kind, raw, gsec.Hex, rsec),
	}
}

var c06Endpoints = map[string][]string{"at": {"introspect"}, "rt": {"introspect", "refresh"}, "ac": {"redeem"}, "dc": {"device"}}

// ---------------------------------------------------------------- the mutation catalogue

type c06Pres struct {
	label string
	raw   string
	sym   c06Sym
}

func c06FlipBit(r *RNG, b []byte) []byte {
	out := append([]byte{}, b...)
	if len(out) == 0 {
		return []byte{1}
	}
	i := r.Intn(len(out) * 8)
	out[i/8] ^= 1 << uint(i%8)
	return out
}

// another final character that decodes to the same bytes (only when the encoding has spare bits)
func c06NonCanonical(r *RNG, s string, nbytes int) (string, bool) {
	spare := map[int]int{1: 4, 2: 2}[nbytes%3]
	if spare == 0 || s == "" {
		return "", false
	}
	const alpha = "ABCDEFGHIJKLMNOPQRSTUVWXYZabcdefghijklmnopqrstuvwxyz0123456789-_"
	v := strings.IndexByte(alpha, s[len(s)-1])
	if v < 0 {
		return "", false
	}
	low := 1 + r.Intn((1<<uint(spare))-1)
	return s[:len(s)-1] + string(alpha[(v&^((1<<uint(spare))-1))|low]), true
}

func c06Rand(r *RNG, n int) []byte {
	b := make([]byte, n)
	for i := range b {
		b[i] = byte(r.Next())
	}
	return b
}

// pfx is the prefix the strategy under test puts on minted tokens ("" for the unprefixed strategy)
func c06Derive(r *RNG, ids *c06IDs, pfx string, t, other c06Minted, mintSec int, hasher string, foreign, short31, short16 []byte) []c06Pres {
	enc := c06b64.EncodeToString
	orig := c06Sym{t.keyID, mintSec, t.keyID}
	newKey := func() c06Sym { return c06Sym{ids.fresh(), mintSec, t.keyID} }
	junk := func() c06Sym { return c06Sym{t.keyID, -1, 0} }
	broken := func() c06Sym { return c06Sym{ids.fresh(), -1, 0} }
	tok := pfx + t.K + "." + t.S
	var out []c06Pres
	add := func(label, raw string, s c06Sym) { out = append(out, c06Pres{label, raw, s}) }

	add("same", tok, orig)
	if pfx != "" {
		add("drop-prefix", t.K+"."+t.S, orig)
	}
	if k2, ok := c06NonCanonical(r, t.K, len(t.kb)); ok {
		add("noncanonical-key", pfx+k2+"."+t.S, orig)
	}
	if s2, ok := c06NonCanonical(r, t.S, len(t.sb)); ok {
		add("noncanonical-sig", pfx+t.K+"."+s2, orig)
	}
	add("flip-key-bit", pfx+enc(c06FlipBit(r, t.kb))+"."+t.S, newKey())
	add("flip-sig-bit", pfx+t.K+"."+enc(c06FlipBit(r, t.sb)), junk())
	add("swap-key", pfx+other.K+"."+t.S, c06Sym{other.keyID, mintSec, t.keyID})
	add("swap-sig", pfx+t.K+"."+other.S, c06Sym{t.keyID, mintSec, other.keyID})
	add("truncate-key-1", pfx+t.K[:len(t.K)-1]+"."+t.S, newKey())
	add("truncate-key-4", pfx+t.K[:len(t.K)-4]+"."+t.S, newKey())
	add("truncate-sig-1", pfx+t.K+"."+t.S[:len(t.S)-1], junk())
	add("truncate-sig-4", pfx+t.K+"."+t.S[:len(t.S)-4], junk())
	cutAt := 1 + r.Intn(len(tok)-1)
	if cutAt > len(pfx)+len(t.K) {
		add("truncate-whole", tok[:cutAt], junk())
	} else {
		add("truncate-whole", tok[:cutAt], broken())
	}
	add("extend-key", pfx+t.K+"AAAA."+t.S, newKey())
	add("extend-sig", pfx+t.K+"."+t.S+"AAAA", junk())
	add("fresh-key-stored-sig", pfx+enc(c06Rand(r, len(t.kb)))+"."+t.S, newKey())
	add("fresh-key-fresh-sig", pfx+enc(c06Rand(r, len(t.kb)))+"."+enc(c06Rand(r, len(t.sb))), broken())
	otherPfx := "ory_rt_"
	if pfx == otherPfx {
		otherPfx = "ory_at_"
	}
	add("wrong-prefix", otherPfx+t.K+"."+t.S, newKey())
	if pfx != "" {
		add("double-prefix", pfx+pfx+t.K+"."+t.S, newKey())
		add("partial-prefix", pfx[:len(pfx)-1]+t.K+"."+t.S, newKey())
		add("upper-prefix", strings.ToUpper(pfx)+t.K+"."+t.S, newKey())
		add("prefix-on-sig", t.K+"."+pfx+t.S, junk())
	}
	// re-signed under other secrets (the attacker knows a foreign / an old short secret)
	fid, s31, s16 := ids.secID(hasher, foreign), ids.secID(hasher, short31), ids.secID(hasher, short16)
	add("resign-foreign", pfx+t.K+"."+enc(c06Mac(hasher, foreign, t.kb)), c06Sym{t.keyID, fid, t.keyID})
	add("resign-short31", pfx+t.K+"."+enc(c06Mac(hasher, short31, t.kb)), c06Sym{t.keyID, s31, t.keyID})
	add("resign-short16", pfx+t.K+"."+enc(c06Mac(hasher, short16, t.kb)), c06Sym{t.keyID, s16, t.keyID})
	nk := c06Rand(r, len(t.kb))
	nid := ids.fresh()
	add("forge-foreign", pfx+enc(nk)+"."+enc(c06Mac(hasher, foreign, nk)), c06Sym{nid, fid, nid})
	add("forge-short31", pfx+enc(nk)+"."+enc(c06Mac(hasher, short31, nk)), c06Sym{nid, s31, nid})
	// layout
	add("extra-dot-tail", tok+".x", junk())
	add("extra-dot-end", tok+".", junk())
	add("double-dot", pfx+t.K+".."+t.S, junk())
	h := len(t.K) / 2
	add("dot-in-key", pfx+t.K[:h]+"."+t.K[h:]+"."+t.S, broken())
	add("empty-key", pfx+"."+t.S, broken())
	add("empty-sig", pfx+t.K+".", junk())
	add("no-dot", pfx+t.K+t.S, broken())
	add("only-dot", ".", broken())
	add("empty", "", broken())
	add("padded-key", pfx+t.K+"=."+t.S, broken())
	add("padded-sig", pfx+t.K+"."+t.S+"=", junk())
	add("space-before", " "+tok, broken())
	// encoding/base64 skips CR and LF: the decoded parts are unchanged
	add("newline-after", tok+"\n", orig)
	add("newline-in-key", pfx+t.K[:h]+"\n"+t.K[h:]+"."+t.S, orig)
	add("cr-in-sig", pfx+t.K+"."+t.S[:len(t.S)/2]+"\r"+t.S[len(t.S)/2:], orig)
	add("tab-in-key", pfx+t.K[:h]+"\t"+t.K[h:]+"."+t.S, broken())
	if strings.ContainsAny(t.K, "-_") {
		add("std-alphabet-key", pfx+strings.NewReplacer("-", "+", "_", "/").Replace(t.K)+"."+t.S, broken())
	}
	if strings.ContainsAny(t.S, "-_") {
		add("std-alphabet-sig", pfx+t.K+"."+strings.NewReplacer("-", "+", "_", "/").Replace(t.S), junk())
	}
	add("garbage", pfx+"%%%.###", broken())
	return out
}

// ---------------------------------------------------------------- secret configurations

type c06Pool struct {
	A, twin, B, B32, S31, S16, S1 []byte
}

func c06NewPool(r *RNG, alen int) c06Pool {
	p := c06Pool{A: c06Rand(r, alen), B: c06Rand(r, 40), B32: c06Rand(r, 32), S31: c06Rand(r, 31), S16: c06Rand(r, 16), S1: c06Rand(r, 1)}
	if alen > 32 { // same first 32 bytes, different tail: hmacsha.go only uses the first 32 bytes
		p.twin = append(append([]byte{}, p.A[:32]...), c06Rand(r, alen-32)...)
	}
	return p
}

func (p c06Pool) others(r *RNG, withA bool) []byte {
	l := [][]byte{p.B, p.B32, p.S31, p.S16, p.B, p.B32}
	if withA {
		l = append(l, p.A, p.A)
		if p.twin != nil {
			l = append(l, p.twin)
		}
	}
	return Pick(r, l)
}

func (p c06Pool) sample(r *RNG, mintHasher string) c06Conf {
	c := c06Conf{hasher: mintHasher}
	n := r.Intn(5)
	switch r.Intn(7) {
	case 0: // the minting configuration
		c.global = p.A
	case 1: // rotated away: A somewhere in the rotated list
		c.global = Pick(r, [][]byte{p.B, p.B32, nil, p.S31})
		for i := 0; i < n; i++ {
			c.rotated = append(c.rotated, p.others(r, false))
		}
		at := r.Intn(len(c.rotated) + 1)
		c.rotated = append(c.rotated[:at], append([][]byte{p.A}, c.rotated[at:]...)...)
	case 2: // A current, junk rotated
		c.global = p.A
		for i := 0; i < n; i++ {
			c.rotated = append(c.rotated, p.others(r, false))
		}
	case 3: // A unknown
		c.global = Pick(r, [][]byte{p.B, p.B32, nil, p.S31, p.S16, p.S1})
		for i := 0; i < n; i++ {
			c.rotated = append(c.rotated, p.others(r, false))
		}
	case 4: // empty current secret
		for i := 0; i < n; i++ {
			c.rotated = append(c.rotated, p.others(r, true))
		}
	default:
		c.global = p.others(r, true)
		for i := 0; i < n; i++ {
			c.rotated = append(c.rotated, p.others(r, true))
		}
	}
	if r.Chance(8) { // validation under another hash function than the one used for minting
		c.hasher = Pick(r, []string{"", "sha256", "sha512", "sha1"})
	}
	return c
}

// every configuration with global in {A,B,S31,empty} and rotated a sequence over {A,B,S31} of length <= n
func (p c06Pool) exhaustive(hasher string, n int) []c06Conf {
	var seqs [][][]byte
	cur := [][][]byte{{}}
	seqs = append(seqs, cur...)
	for k := 1; k <= n; k++ {
		var next [][][]byte
		for _, s := range cur {
			for _, x := range [][]byte{p.A, p.B, p.S31} {
				next = append(next, append(append([][]byte{}, s...), x))
			}
		}
		seqs = append(seqs, next...)
		cur = next
	}
	var out []c06Conf
	for _, g := range [][]byte{p.A, p.B, p.S31, nil} {
		for _, s := range seqs {
			out = append(out, c06Conf{global: g, rotated: s, hasher: hasher})
		}
	}
	return out
}

// ---------------------------------------------------------------- minting observations

func c06MintCase(glen, entropy int, hasher string, secret []byte) Case {
	ctx := context.Background()
	conf := &fosite.Config{GlobalSecret: secret, TokenEntropy: entropy, HMACHasher: c06ConfHasher(hasher)}
	var tok, sig string
	var err error
	panicked := c06Guard(func() string {
		tok, sig, err = (&enigma.HMACStrategy{Config: conf}).Generate(ctx)
		return ""
	}) == "panic"
	impl, implS := "None", "refused"
	if panicked {
		impl, implS = "(Some ((-2)%Z, (-2)%Z))", "panic"
	} else if err == nil {
		kl, sl := -1, -1
		if i := strings.IndexByte(tok, '.'); i >= 0 && tok[i+1:] == sig {
			kb, e1 := c06b64.DecodeString(tok[:i])
			sb, e2 := c06b64.DecodeString(sig)
			if e1 == nil && e2 == nil && hmac.Equal(c06Mac(hasher, secret, kb), sb) {
				kl, sl = len(kb), len(sb)
			}
		}
		impl, implS = fmt.Sprintf("(Some (%s, %s))", Z(int64(kl)), Z(int64(sl))), fmt.Sprintf("%d/%d", kl, sl)
	}
	hs := c06HashNew(hasher)().Size()
	return Case{
		Coq:        fmt.Sprintf("KMint %d %s %s %s", glen, Z(int64(entropy)), Z(int64(hs)), impl),
		Replay:     c06Replay{Kind: "mint", Global: &c06Sec{Hex: hex.EncodeToString(secret)}, Entropy: entropy, Hasher: hasher, Impl: implS},
		NonTrivial: true,
		Key:        fmt.Sprintf("m|%d|%d|%s", glen, entropy, hasher),
	}
}

func c06UserSigCase(secret []byte) Case {
	ctx := context.Background()
	conf := &fosite.Config{GlobalSecret: secret}
	_, err := compose.NewDeviceStrategy(conf).UserCodeSignature(ctx, "BCDFGHJK")
	return Case{
		Coq:        fmt.Sprintf("KUserSig %d %s", len(secret), B(err == nil)),
		Replay:     c06Replay{Kind: "usersig", Global: &c06Sec{Hex: hex.EncodeToString(secret)}, Impl: B(err == nil)},
		NonTrivial: true,
		Key:        fmt.Sprintf("u|%d", len(secret)),
	}
}

// duplicates and byte statistics over minted values; values are "<prefix>K.S" tokens or PAR request URIs
func c06FreshCase(values []string, n int) Case {
	seen := map[string]bool{}
	keys := map[string]bool{}
	ones, bits := 0, 0
	tails := true
	for _, v := range values {
		seen[v] = true
		k := v
		if i := strings.LastIndex(k, ":"); strings.HasPrefix(k, "urn:") && i >= 0 {
			k = k[i+1:]
		}
		if strings.HasPrefix(k, "ory_") && len(k) > 7 {
			k = k[7:]
		}
		if i := strings.IndexByte(k, '.'); i >= 0 {
			k = k[:i]
		}
		kb, err := c06b64.DecodeString(k)
		if err != nil || len(kb) < 16 {
			tails = false
			continue
		}
		keys[string(kb)] = true
		if bytes.Equal(kb[len(kb)-8:], make([]byte, 8)) || bytes.Equal(kb[:8], make([]byte, 8)) {
			tails = false
		}
		for _, b := range kb {
			for j := 0; j < 8; j++ {
				ones += int(b>>uint(j)) & 1
			}
			bits += 8
		}
	}
	balanced := true
	if bits >= 100000 {
		f := float64(ones) / float64(bits)
		balanced = f > 0.47 && f < 0.53
	}
	distinct := len(seen)
	if len(keys) < distinct {
		distinct = len(keys)
	}
	return Case{
		Coq:        fmt.Sprintf("KFresh %d %d %s %s", len(values), distinct, B(tails), B(balanced)),
		Replay:     c06Replay{Kind: "fresh", N: n, Impl: fmt.Sprintf("%d minted, %d distinct, tails=%v balanced=%v", len(values), distinct, tails, balanced)},
		NonTrivial: true,
		Key:        "fresh",
	}
}

func c06MintMany(t *testing.T, n int) []string {
	ctx := context.Background()
	secret := make([]byte, 32)
	if _, err := rand.Read(secret); err != nil {
		t.Fatal(err)
	}
	s := &enigma.HMACStrategy{Config: &fosite.Config{GlobalSecret: secret}}
	out := make([]string, 0, n)
	for i := 0; i < n; i++ {
		tok, _, err := s.Generate(ctx)
		if err != nil {
			t.Fatal(err)
		}
		out = append(out, tok)
	}
	return out
}

// ---------------------------------------------------------------- replay

func c06Unhex(t *testing.T, s string) []byte {
	b, err := hex.DecodeString(s)
	if err != nil {
		t.Fatal(err)
	}
	if len(b) == 0 {
		return nil
	}
	return b
}

// ids as recorded: the table is pre-seeded so that the recorded secrets get their recorded ids
func c06ReplayIDs(t *testing.T, rp *c06Replay) (*c06IDs, c06Conf) {
	ids := newC06IDs()
	c := c06Conf{hasher: rp.Hasher}
	max := 0
	seed := func(s c06Sec) []byte {
		b := c06Unhex(t, s.Hex)
		ids.sec[rp.Hasher+"|"+hex.EncodeToString(c06Pad32(b))] = s.ID
		if s.ID > max {
			max = s.ID
		}
		return b
	}
	if rp.Global != nil {
		c.global = seed(*rp.Global)
	}
	for _, s := range rp.Rotated {
		c.rotated = append(c.rotated, seed(s))
	}
	if rp.Sym != nil {
		for _, v := range []int{rp.Sym.Key, rp.Sym.SigSec, rp.Sym.SigKey} {
			if v > max {
				max = v
			}
		}
	}
	ids.next = max + 1000
	return ids, c
}

// a store holding a live record under each recorded signature
func c06SeedWorld(t *testing.T, ids *c06IDs, kind string, sigs []string) *c06World {
	w := newC06World(t, ids, bytes.Repeat([]byte{7}, 32), "", 32)
	ctx := context.Background()
	for i, sig := range sigs {
		req := fosite.NewRequest()
		req.Client = w.store.Clients["c0"]
		req.Session = &fosite.DefaultSession{Subject: "peter"}
		req.GrantedScope = fosite.Arguments{"offline", "photos"}
		req.RequestedScope = fosite.Arguments{"offline", "photos"}
		req.Form = url.Values{"redirect_uri": {c06Redirect}}
		var err error
		switch kind {
		case "at":
			err = w.store.CreateAccessTokenSession(ctx, sig, req)
		case "rt":
			err = w.store.CreateRefreshTokenSession(ctx, sig, fmt.Sprintf("at-of-%d", i), req)
		case "ac":
			err = w.store.CreateAuthorizeCodeSession(ctx, sig, req)
		case "dc":
			dr := &fosite.DeviceRequest{Request: *req, UserCodeState: fosite.UserCodeAccepted}
			err = w.store.CreateDeviceAuthSession(ctx, sig, fmt.Sprintf("uc-of-%d", i), dr)
		}
		if err != nil {
			t.Fatal(err)
		}
	}
	return w
}

func c06RunReplay(t *testing.T, out *Out, rp *c06Replay) {
	switch rp.Kind {
	case "validate":
		ids, c := c06ReplayIDs(t, rp)
		out.Add(c06ValCase(ids, rp.Label, rp.TKind, rp.Prefixed, rp.Raw, *rp.Sym, c))
	case "e2e":
		ids, c := c06ReplayIDs(t, rp)
		w := c06SeedWorld(t, ids, rp.TKind, rp.Stored)
		out.Add(w.e2eCase(rp.Label, rp.Endpoint, rp.TKind, rp.Raw, *rp.Sym, c))
	case "mint":
		s := c06Unhex(t, rp.Global.Hex)
		out.Add(c06MintCase(len(s), rp.Entropy, rp.Hasher, s))
	case "usersig":
		out.Add(c06UserSigCase(c06Unhex(t, rp.Global.Hex)))
	case "fresh":
		out.Add(c06FreshCase(c06MintMany(t, rp.N), rp.N))
	case "jwt", "jwt_e2e", "jwt_gen":
		c06JwtReplay(t, out, rp)
	default:
		t.Fatalf("unknown replay kind %q", rp.Kind)
	}
}

// ---------------------------------------------------------------- driver

func init() { Register("C06", runC06) }

func runC06(t *testing.T, e Env) {
	out := NewOut(e.Out, "Cases.CasesC06", "c06case", "check", 150)
	if e.Replay != nil {
		var rp c06Replay
		if err := json.Unmarshal(e.Replay, &rp); err != nil {
			t.Fatal(err)
		}
		c06RunReplay(t, out, &rp)
		if err := out.Flush("replay"); err != nil {
			t.Fatal(err)
		}
		return
	}
	thorough := e.Tier == "thorough"
	r := NewRNG(e.Seed)
	var minted []string

	// ---- worlds: minting secret length x entropy x hash function
	type wspec struct {
		alen, entropy int
		hasher        string
	}
	specs := []wspec{{32, 0, ""}, {64, 47, ""}, {33, 33, "sha256"}, {48, 16, "sha512"}}
	nSample, exhN, exhWorlds := 2, 3, 1
	if thorough {
		specs = append(specs, wspec{32, 47, ""}, wspec{64, 32, ""}, wspec{32, 64, "sha1"}, wspec{40, 100, ""}, wspec{32, -1, "sha512"}, wspec{57, 34, "sha256"}, wspec{32, 35, ""}, wspec{36, 32, ""})
		nSample, exhN, exhWorlds = 8, 4, 3
	}
	for wi, sp := range specs {
		ids := newC06IDs()
		pool := c06NewPool(r, sp.alen)
		w := newC06World(t, ids, pool.A, sp.hasher, sp.entropy)
		if !w.mintAll(out) {
			continue
		}
		for i := 0; i < 10; i++ {
			minted = append(minted, w.mintPAR())
		}
		// what the provider flows minted: bytes of the random part / of the signature part
		hs := c06HashNew(sp.hasher)().Size()
		for _, kind := range []string{"at", "rt", "ac", "dc"} {
			for _, m := range w.toks[kind] {
				out.Add(Case{
					Coq:        fmt.Sprintf("KMint %d %s %s (Some (%s, %s))", sp.alen, Z(int64(sp.entropy)), Z(int64(hs)), Z(int64(len(m.kb))), Z(int64(len(m.sb)))),
					Replay:     c06Replay{Kind: "mint", Label: "minted-by-flow-" + kind, Global: &c06Sec{Hex: hex.EncodeToString(pool.A)}, Entropy: sp.entropy, Hasher: sp.hasher, Impl: fmt.Sprintf("%d/%d", len(m.kb), len(m.sb))},
					NonTrivial: true,
					Key:        fmt.Sprintf("mf|%d|%s|%s", wi, kind, m.raw),
				})
				out.Count("mint-by-flow")
			}
		}
		for _, kind := range []string{"at", "rt", "ac", "dc"} {
			tk, other := w.toks[kind][0], w.toks[kind][1]
			pres := c06Derive(r, ids, c06Prefix(kind), tk, other, w.secA, sp.hasher, pool.B, pool.S31, pool.S16)
			for _, p := range pres {
				confs := []c06Conf{{global: pool.A, hasher: sp.hasher}}
				for i := 0; i < nSample; i++ {
					confs = append(confs, pool.sample(r, sp.hasher))
				}
				for _, c := range confs {
					out.Add(c06ValCase(ids, p.label, kind, true, p.raw, p.sym, c))
					out.Count("validate-" + kind)
					out.Count("mutation-" + p.label)
					for _, ep := range c06Endpoints[kind] {
						out.Add(w.e2eCase(p.label, ep, kind, p.raw, p.sym, c))
						out.Count("e2e-" + ep)
					}
				}
			}
			// the unprefixed strategy on its own kind of minted string (no prefix at all)
			if kind != "dc" {
				for _, p := range c06Derive(r, ids, "", tk, other, w.secA, sp.hasher, pool.B, pool.S31, pool.S16) {
					c := pool.sample(r, sp.hasher)
					if r.Chance(40) {
						c = c06Conf{global: pool.A, hasher: sp.hasher}
					}
					out.Add(c06ValCase(ids, p.label, kind, false, p.raw, p.sym, c))
					out.Count("validate-unprefixed-" + kind)
				}
			}
			// rotated-secret lists of every length and order, short secrets mixed in
			if wi < exhWorlds && (thorough || kind == "at" || kind == "dc") {
				orig := c06Sym{tk.keyID, w.secA, tk.keyID}
				s31 := ids.secID(sp.hasher, pool.S31)
				strs := []c06Pres{
					{"same", tk.raw, orig},
					{"flip-key-bit", c06Prefix(kind) + c06b64.EncodeToString(c06FlipBit(r, tk.kb)) + "." + tk.S, c06Sym{ids.fresh(), w.secA, tk.keyID}},
					{"resign-short31", c06Prefix(kind) + tk.K + "." + c06b64.EncodeToString(c06Mac(sp.hasher, pool.S31, tk.kb)), c06Sym{tk.keyID, s31, tk.keyID}},
				}
				for _, p := range strs {
					for _, c := range pool.exhaustive(sp.hasher, exhN) {
						out.Add(c06ValCase(ids, p.label, kind, true, p.raw, p.sym, c))
						out.Count("validate-exhaustive-secret-lists")
					}
				}
			}
		}
		// the genuine tokens are still honoured completely at the end (and mint further values)
		if at, rt, ok := w.redeem(w.toks["ac"][1].raw); ok {
			minted = append(minted, at, rt)
		} else {
			out.Add(w.e2eCase("genuine-code-refused", "redeem", "ac", w.toks["ac"][1].raw, c06Sym{w.toks["ac"][1].keyID, w.secA, w.toks["ac"][1].keyID}, c06Conf{global: pool.A, hasher: sp.hasher}))
			out.Count("genuine-code-refused")
		}
		minted = append(minted, w.all...)
	}

	// ---- minting: secret length x entropy x hash function
	glens := []int{0, 1, 16, 31, 32, 33, 64}
	ents := []int{-5, 0, 1, 16, 31, 32, 33, 47, 64, 100}
	for _, gl := range glens {
		for _, en := range ents {
			for _, h := range []string{"", "sha256", "sha512", "sha1"} {
				out.Add(c06MintCase(gl, en, h, c06Rand(r, gl)))
				out.Count("mint")
			}
		}
		out.Add(c06UserSigCase(c06Rand(r, gl)))
		out.Count("user-code-signature")
	}

	// ---- freshness: everything minted in this run plus a batch of Generate() calls
	nFresh := 3000
	if thorough {
		nFresh = 200000
	}
	minted = append(minted, c06MintMany(t, nFresh)...)
	out.Add(c06FreshCase(minted, nFresh))
	out.Count("freshness")
	out.Notes["minted_values_measured"] = len(minted)

	// ---- JWT access tokens
	c06RunJwt(t, e, r, out)

	if err := out.Flush("opaque tokens: per world (secret length x entropy x hash function) the full mutation catalogue on one minted token of each kind x sampled current+rotated secret configurations, observed at Validate*() and at the endpoints; exhaustive secret lists (global in {A,B,short,empty} x rotated sequences over {A,B,short}); minting grid; freshness of all minted values; JWT: alg x signer x key type x claims x structure. non-trivial = both parts decode (opaque) / token parses (JWT); distinct by (kind, string, secret configuration)"); err != nil {
		t.Fatal(err)
	}
}
