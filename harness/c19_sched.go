package hx

// C19 schedule stream: two or three API operations on overlapping tokens are executed on the
// real provider (compose.ComposeAllEnabled) over one storage.MemoryStore, wrapped in an adapter
// that lets exactly one storage call proceed at a time, in an order chosen by the harness
// (exhaustive enumeration by depth-first search over the choice points when the number of
// interleavings is small, seeded samples otherwise).  Recorded per run: the global order of
// storage calls with the store's answers, the content of the store afterwards, every credential
// handed to a caller with its liveness afterwards (asked through the provider), panics.
// A watchdog fails the run when no operation makes progress (deadlock).

import (
	"context"
	"errors"
	"fmt"
	"net/http"
	"net/http/httptest"
	"net/url"
	"reflect"
	"sort"
	"strings"
	"sync"
	"testing"
	"time"

	"github.com/ory/fosite"
	"github.com/ory/fosite/compose"
	"github.com/ory/fosite/storage"
)

type c19Sched struct {
	Scenario string `json:"scenario"`
	Variant  int    `json:"variant"` // bit 0: confidential client (bcrypt), bit 1: openid scope, bit 2: PKCE
	Choices  []int  `json:"choices"` // at every choice point: index into the sorted list of runnable operations
	// what was observed (for the reader; replay recomputes it)
	Ops    []string `json:"ops,omitempty"`
	Log    []string `json:"log,omitempty"`
	Errs   []string `json:"op_results,omitempty"`
	Minted []string `json:"minted,omitempty"`
}

type c19Stress struct {
	Config string `json:"config"`
	Site1  string `json:"site1,omitempty"`
	Site2  string `json:"site2,omitempty"`
	Report string `json:"race_report,omitempty"`
	N      int    `json:"requests,omitempty"`
}

// ---------------------------------------------------------------- the scheduling adapter
type schedKey struct{}

type interner struct {
	m    map[string]int
	list []string
}

func (in *interner) id(s string) int {
	if in.m == nil {
		in.m = map[string]int{}
	}
	if v, ok := in.m[s]; ok {
		return v
	}
	v := len(in.list)
	in.m[s] = v
	in.list = append(in.list, s)
	return v
}

type schedEntry struct {
	Tid  int
	Call string
	Res  string
}

type controller struct {
	ask   chan int
	done  chan int
	grant map[int]chan struct{}
}

type schedStore struct {
	*storage.MemoryStore
	mu      sync.Mutex
	log     []schedEntry
	keys    interner
	rids    interner
	clients interner
	ctl     *controller
	logging bool
}

func (s *schedStore) enter(ctx context.Context) int {
	tid, _ := ctx.Value(schedKey{}).(int)
	if s.ctl != nil && tid > 0 {
		s.ctl.ask <- tid
		<-s.ctl.grant[tid]
	}
	return tid
}

func (s *schedStore) rec(tid int, call, res string) {
	if !s.logging {
		return
	}
	s.mu.Lock()
	s.log = append(s.log, schedEntry{tid, call, res})
	s.mu.Unlock()
}

func (s *schedStore) k(x string) int { s.mu.Lock(); defer s.mu.Unlock(); return s.keys.id(x) }
func (s *schedStore) r(x string) int { s.mu.Lock(); defer s.mu.Unlock(); return s.rids.id(x) }
func (s *schedStore) c(x string) int { s.mu.Lock(); defer s.mu.Unlock(); return s.clients.id(x) }

func (s *schedStore) resPlain(err error) string {
	switch {
	case err == nil:
		return "K"
	case errors.Is(err, fosite.ErrNotFound):
		return "NF"
	}
	return "Unk"
}

func (s *schedStore) resReq(req fosite.Requester, err error) string {
	isNil := req == nil || (reflect.ValueOf(req).Kind() == reflect.Ptr && reflect.ValueOf(req).IsNil())
	switch {
	case err == nil && !isNil:
		return fmt.Sprintf("Rq %d", s.r(req.GetID()))
	case errors.Is(err, fosite.ErrNotFound):
		return "NF"
	case errors.Is(err, fosite.ErrInactiveToken) && !isNil:
		return fmt.Sprintf("Ina %d", s.r(req.GetID()))
	case errors.Is(err, fosite.ErrInvalidatedAuthorizeCode) && !isNil:
		return fmt.Sprintf("Ivd %d", s.r(req.GetID()))
	}
	return "Unk"
}

func (s *schedStore) GetClient(ctx context.Context, id string) (fosite.Client, error) {
	t := s.enter(ctx)
	c, err := s.MemoryStore.GetClient(ctx, id)
	s.rec(t, fmt.Sprintf("GCl %d", s.c(id)), s.resPlain(err))
	return c, err
}
func (s *schedStore) CreateAuthorizeCodeSession(ctx context.Context, code string, req fosite.Requester) error {
	t := s.enter(ctx)
	err := s.MemoryStore.CreateAuthorizeCodeSession(ctx, code, req)
	s.rec(t, fmt.Sprintf("CCo %d %d", s.k(code), s.r(req.GetID())), s.resPlain(err))
	return err
}
func (s *schedStore) GetAuthorizeCodeSession(ctx context.Context, code string, se fosite.Session) (fosite.Requester, error) {
	t := s.enter(ctx)
	r, err := s.MemoryStore.GetAuthorizeCodeSession(ctx, code, se)
	s.rec(t, fmt.Sprintf("GCo %d", s.k(code)), s.resReq(r, err))
	return r, err
}
func (s *schedStore) InvalidateAuthorizeCodeSession(ctx context.Context, code string) error {
	t := s.enter(ctx)
	err := s.MemoryStore.InvalidateAuthorizeCodeSession(ctx, code)
	s.rec(t, fmt.Sprintf("ICo %d", s.k(code)), s.resPlain(err))
	return err
}
func (s *schedStore) CreatePKCERequestSession(ctx context.Context, code string, req fosite.Requester) error {
	t := s.enter(ctx)
	err := s.MemoryStore.CreatePKCERequestSession(ctx, code, req)
	s.rec(t, fmt.Sprintf("CPk %d %d", s.k(code), s.r(req.GetID())), s.resPlain(err))
	return err
}
func (s *schedStore) GetPKCERequestSession(ctx context.Context, code string, se fosite.Session) (fosite.Requester, error) {
	t := s.enter(ctx)
	r, err := s.MemoryStore.GetPKCERequestSession(ctx, code, se)
	s.rec(t, fmt.Sprintf("GPk %d", s.k(code)), s.resReq(r, err))
	return r, err
}
func (s *schedStore) DeletePKCERequestSession(ctx context.Context, code string) error {
	t := s.enter(ctx)
	err := s.MemoryStore.DeletePKCERequestSession(ctx, code)
	s.rec(t, fmt.Sprintf("DPk %d", s.k(code)), s.resPlain(err))
	return err
}
func (s *schedStore) CreateOpenIDConnectSession(ctx context.Context, code string, req fosite.Requester) error {
	t := s.enter(ctx)
	err := s.MemoryStore.CreateOpenIDConnectSession(ctx, code, req)
	s.rec(t, fmt.Sprintf("COi %d %d", s.k(code), s.r(req.GetID())), s.resPlain(err))
	return err
}
func (s *schedStore) GetOpenIDConnectSession(ctx context.Context, code string, req fosite.Requester) (fosite.Requester, error) {
	t := s.enter(ctx)
	r, err := s.MemoryStore.GetOpenIDConnectSession(ctx, code, req)
	s.rec(t, fmt.Sprintf("GOi %d", s.k(code)), s.resReq(r, err))
	return r, err
}
func (s *schedStore) DeleteOpenIDConnectSession(ctx context.Context, code string) error {
	t := s.enter(ctx)
	err := s.MemoryStore.DeleteOpenIDConnectSession(ctx, code)
	s.rec(t, fmt.Sprintf("DOi %d", s.k(code)), s.resPlain(err))
	return err
}
func (s *schedStore) CreateAccessTokenSession(ctx context.Context, sig string, req fosite.Requester) error {
	t := s.enter(ctx)
	err := s.MemoryStore.CreateAccessTokenSession(ctx, sig, req)
	s.rec(t, fmt.Sprintf("CAt %d %d", s.k(sig), s.r(req.GetID())), s.resPlain(err))
	return err
}
func (s *schedStore) GetAccessTokenSession(ctx context.Context, sig string, se fosite.Session) (fosite.Requester, error) {
	t := s.enter(ctx)
	r, err := s.MemoryStore.GetAccessTokenSession(ctx, sig, se)
	s.rec(t, fmt.Sprintf("GAt %d", s.k(sig)), s.resReq(r, err))
	return r, err
}
func (s *schedStore) DeleteAccessTokenSession(ctx context.Context, sig string) error {
	t := s.enter(ctx)
	err := s.MemoryStore.DeleteAccessTokenSession(ctx, sig)
	s.rec(t, fmt.Sprintf("DAt %d", s.k(sig)), s.resPlain(err))
	return err
}
func (s *schedStore) CreateRefreshTokenSession(ctx context.Context, sig, atSig string, req fosite.Requester) error {
	t := s.enter(ctx)
	err := s.MemoryStore.CreateRefreshTokenSession(ctx, sig, atSig, req)
	s.rec(t, fmt.Sprintf("CRt %d %d %d", s.k(sig), s.k(atSig), s.r(req.GetID())), s.resPlain(err))
	return err
}
func (s *schedStore) GetRefreshTokenSession(ctx context.Context, sig string, se fosite.Session) (fosite.Requester, error) {
	t := s.enter(ctx)
	r, err := s.MemoryStore.GetRefreshTokenSession(ctx, sig, se)
	s.rec(t, fmt.Sprintf("GRt %d", s.k(sig)), s.resReq(r, err))
	return r, err
}
func (s *schedStore) DeleteRefreshTokenSession(ctx context.Context, sig string) error {
	t := s.enter(ctx)
	err := s.MemoryStore.DeleteRefreshTokenSession(ctx, sig)
	s.rec(t, fmt.Sprintf("DRt %d", s.k(sig)), s.resPlain(err))
	return err
}
func (s *schedStore) RevokeRefreshToken(ctx context.Context, rid string) error {
	t := s.enter(ctx)
	err := s.MemoryStore.RevokeRefreshToken(ctx, rid)
	s.rec(t, fmt.Sprintf("VRt %d", s.r(rid)), s.resPlain(err))
	return err
}
func (s *schedStore) RevokeAccessToken(ctx context.Context, rid string) error {
	t := s.enter(ctx)
	err := s.MemoryStore.RevokeAccessToken(ctx, rid)
	s.rec(t, fmt.Sprintf("VAt %d", s.r(rid)), s.resPlain(err))
	return err
}
func (s *schedStore) RotateRefreshToken(ctx context.Context, rid, sig string) error {
	t := s.enter(ctx)
	err := s.MemoryStore.RotateRefreshToken(ctx, rid, sig)
	s.rec(t, fmt.Sprintf("Rot %d %d", s.r(rid), s.k(sig)), s.resPlain(err))
	return err
}
func (s *schedStore) CreatePARSession(ctx context.Context, uri string, req fosite.AuthorizeRequester) error {
	t := s.enter(ctx)
	err := s.MemoryStore.CreatePARSession(ctx, uri, req)
	s.rec(t, fmt.Sprintf("CPa %d %d", s.k(uri), s.r(req.GetID())), s.resPlain(err))
	return err
}
func (s *schedStore) GetPARSession(ctx context.Context, uri string) (fosite.AuthorizeRequester, error) {
	t := s.enter(ctx)
	r, err := s.MemoryStore.GetPARSession(ctx, uri)
	var rq fosite.Requester
	if r != nil {
		rq = r
	}
	s.rec(t, fmt.Sprintf("GPa %d", s.k(uri)), s.resReq(rq, err))
	return r, err
}
func (s *schedStore) DeletePARSession(ctx context.Context, uri string) error {
	t := s.enter(ctx)
	err := s.MemoryStore.DeletePARSession(ctx, uri)
	s.rec(t, fmt.Sprintf("DPa %d", s.k(uri)), s.resPlain(err))
	return err
}
func (s *schedStore) CreateDeviceAuthSession(ctx context.Context, dSig, uSig string, req fosite.DeviceRequester) error {
	t := s.enter(ctx)
	err := s.MemoryStore.CreateDeviceAuthSession(ctx, dSig, uSig, req)
	s.rec(t, fmt.Sprintf("CDv %d %d %d", s.k(dSig), s.k(uSig), s.r(req.GetID())), s.resPlain(err))
	return err
}
func (s *schedStore) GetDeviceCodeSession(ctx context.Context, sig string, se fosite.Session) (fosite.DeviceRequester, error) {
	t := s.enter(ctx)
	r, err := s.MemoryStore.GetDeviceCodeSession(ctx, sig, se)
	var rq fosite.Requester
	if r != nil {
		rq = r
	}
	s.rec(t, fmt.Sprintf("GDv %d", s.k(sig)), s.resReq(rq, err))
	return r, err
}
func (s *schedStore) InvalidateDeviceCodeSession(ctx context.Context, sig string) error {
	t := s.enter(ctx)
	err := s.MemoryStore.InvalidateDeviceCodeSession(ctx, sig)
	s.rec(t, fmt.Sprintf("IDv %d", s.k(sig)), s.resPlain(err))
	return err
}

// calls the sequential model does not track: scheduled and logged by name only
func (s *schedStore) other(ctx context.Context, name string) int {
	t := s.enter(ctx)
	s.rec(t, "Oth "+Q(name), "Unk")
	return t
}
func (s *schedStore) Authenticate(ctx context.Context, name, secret string) (string, error) {
	s.other(ctx, "Authenticate")
	return s.MemoryStore.Authenticate(ctx, name, secret)
}
func (s *schedStore) ClientAssertionJWTValid(ctx context.Context, jti string) error {
	s.other(ctx, "ClientAssertionJWTValid")
	return s.MemoryStore.ClientAssertionJWTValid(ctx, jti)
}
func (s *schedStore) SetClientAssertionJWT(ctx context.Context, jti string, exp time.Time) error {
	s.other(ctx, "SetClientAssertionJWT")
	return s.MemoryStore.SetClientAssertionJWT(ctx, jti, exp)
}
func (s *schedStore) IsJWTUsed(ctx context.Context, jti string) (bool, error) {
	s.other(ctx, "IsJWTUsed")
	return s.MemoryStore.IsJWTUsed(ctx, jti)
}
func (s *schedStore) MarkJWTUsedForTime(ctx context.Context, jti string, exp time.Time) error {
	s.other(ctx, "MarkJWTUsedForTime")
	return s.MemoryStore.MarkJWTUsedForTime(ctx, jti, exp)
}

// ---------------------------------------------------------------- world
type c19Tok struct {
	Kind string // access refresh code
	Tok  string
	By   int
}

type c19OpRes struct {
	Err    string
	Minted []c19Tok
	Panic  string
}

type c19Op struct {
	Name string
	Run  func(ctx context.Context) c19OpRes
}

type c19World struct {
	variant int
	store   *schedStore
	conf    *fosite.Config
	prov    fosite.OAuth2Provider
	minted  []c19Tok
}

const c19Verifier = "verifier-0123456789-0123456789-0123456789-0123456789"

func newC19World(variant int) *c19World {
	w := &c19World{variant: variant}
	w.conf = &fosite.Config{
		GlobalSecret:               []byte("0123456789abcdef0123456789abcdef-global"),
		AuthorizeCodeLifespan:      10 * time.Minute,
		AccessTokenLifespan:        time.Hour,
		RefreshTokenLifespan:       24 * time.Hour,
		IDTokenLifespan:            time.Hour,
		ScopeStrategy:              fosite.WildcardScopeStrategy,
		AudienceMatchingStrategy:   fosite.DefaultAudienceMatchingStrategy,
		RefreshTokenScopes:         []string{},
		TokenURL:                   "https://as.example/token",
		SendDebugMessagesToClients: true,
		ClientSecretsHasher:        &fosite.BCrypt{Config: &fosite.Config{HashCost: 4}},
		IDTokenIssuer:              "https://as.example",
		EnforcePKCE:                false,
	}
	w.store = &schedStore{MemoryStore: storage.NewMemoryStore(), logging: true}
	for i := 0; i < 2; i++ {
		dc := &fosite.DefaultClient{ID: clientID(i), RedirectURIs: []string{clientRedirect(i)},
			GrantTypes:    []string{"authorization_code", "refresh_token", "implicit", "urn:ietf:params:oauth:grant-type:device_code"},
			ResponseTypes: []string{"code", "token", "id_token", "code token", "code id_token", "id_token token", "code id_token token"},
			Scopes:        []string{"offline", "openid", "photos"}, Audience: []string{}}
		if variant&1 == 1 {
			dc.Secret = hashSecret(clientSecret(i))
		} else {
			dc.Public = true
		}
		w.store.Clients[dc.ID] = dc
		w.store.c(dc.ID)
	}
	w.prov = compose.ComposeAllEnabled(w.conf, w.store, theKey())
	return w
}

func (w *c19World) scopes() string {
	if w.variant&2 == 2 {
		return "offline openid photos"
	}
	return "offline photos"
}

func (w *c19World) post(path string, form url.Values, client int) *http.Request {
	r := httptest.NewRequest("POST", path, nil)
	if w.variant&1 == 1 {
		r.SetBasicAuth(url.QueryEscape(clientID(client)), url.QueryEscape(clientSecret(client)))
	} else {
		form.Set("client_id", clientID(client))
	}
	r2 := httptest.NewRequest("POST", path, strings.NewReader(form.Encode()))
	r2.Header = r.Header
	r2.Header.Set("Content-Type", "application/x-www-form-urlencoded")
	return r2
}

func tidOf(ctx context.Context) int { t, _ := ctx.Value(schedKey{}).(int); return t }

func (w *c19World) session() fosite.Session {
	return newC19Session("peter", w.variant&2 == 2)
}

// authorize: code flow; extra carries request_uri for PAR use
func (w *c19World) authorize(ctx context.Context, client int, requestURI string) c19OpRes {
	q := url.Values{}
	q.Set("client_id", clientID(client))
	if requestURI != "" {
		q.Set("request_uri", requestURI)
	} else {
		q.Set("response_type", "code")
		q.Set("state", "state-0123456789")
		q.Set("redirect_uri", clientRedirect(client))
		q.Set("scope", w.scopes())
		q.Set("nonce", "nonce-0123456789")
		if w.variant&4 == 4 {
			q.Set("code_challenge", s256(c19Verifier))
			q.Set("code_challenge_method", "S256")
		}
	}
	req := httptest.NewRequest("GET", "/auth?"+q.Encode(), nil)
	ar, err := w.prov.NewAuthorizeRequest(ctx, req)
	if err != nil {
		w.prov.WriteAuthorizeError(ctx, httptest.NewRecorder(), ar, err)
		return c19OpRes{Err: errName(err)}
	}
	for _, s := range ar.GetRequestedScopes() {
		ar.GrantScope(s)
	}
	resp, err := w.prov.NewAuthorizeResponse(ctx, ar, w.session())
	if err != nil {
		w.prov.WriteAuthorizeError(ctx, httptest.NewRecorder(), ar, err)
		return c19OpRes{Err: errName(err)}
	}
	w.prov.WriteAuthorizeResponse(ctx, httptest.NewRecorder(), ar, resp)
	res := c19OpRes{}
	if code := resp.GetCode(); code != "" {
		res.Minted = append(res.Minted, c19Tok{"code", code, tidOf(ctx)})
	}
	return res
}

// hybridAuthorize: response_type "code token" (OpenID Connect hybrid flow): an access token is
// issued at the authorization endpoint under the same request id as the code
func (w *c19World) hybridAuthorize(ctx context.Context, client int) c19OpRes {
	q := url.Values{}
	q.Set("client_id", clientID(client))
	q.Set("response_type", "code token")
	q.Set("state", "state-0123456789")
	q.Set("redirect_uri", clientRedirect(client))
	q.Set("scope", w.scopes())
	q.Set("nonce", "nonce-0123456789")
	ar, err := w.prov.NewAuthorizeRequest(ctx, httptest.NewRequest("GET", "/auth?"+q.Encode(), nil))
	if err != nil {
		return c19OpRes{Err: errName(err)}
	}
	for _, s := range ar.GetRequestedScopes() {
		ar.GrantScope(s)
	}
	resp, err := w.prov.NewAuthorizeResponse(ctx, ar, w.session())
	if err != nil {
		return c19OpRes{Err: errName(err)}
	}
	w.prov.WriteAuthorizeResponse(ctx, httptest.NewRecorder(), ar, resp)
	res := c19OpRes{}
	if code := resp.GetCode(); code != "" {
		res.Minted = append(res.Minted, c19Tok{"code", code, tidOf(ctx)})
	}
	if at := resp.GetParameters().Get("access_token"); at != "" {
		res.Minted = append(res.Minted, c19Tok{"access", at, tidOf(ctx)})
	}
	return res
}

func (w *c19World) tokenReq(ctx context.Context, form url.Values, client int) c19OpRes {
	req := w.post("/token", form, client)
	ar, err := w.prov.NewAccessRequest(ctx, req, w.session())
	if err != nil {
		w.prov.WriteAccessError(ctx, httptest.NewRecorder(), ar, err)
		return c19OpRes{Err: errName(err)}
	}
	resp, err := w.prov.NewAccessResponse(ctx, ar)
	if err != nil {
		w.prov.WriteAccessError(ctx, httptest.NewRecorder(), ar, err)
		return c19OpRes{Err: errName(err)}
	}
	w.prov.WriteAccessResponse(ctx, httptest.NewRecorder(), ar, resp)
	res := c19OpRes{}
	if at := resp.GetAccessToken(); at != "" {
		res.Minted = append(res.Minted, c19Tok{"access", at, tidOf(ctx)})
	}
	if rt, ok := resp.GetExtra("refresh_token").(string); ok && rt != "" {
		res.Minted = append(res.Minted, c19Tok{"refresh", rt, tidOf(ctx)})
	}
	return res
}

func (w *c19World) redeem(ctx context.Context, client int, code string) c19OpRes {
	form := url.Values{}
	form.Set("grant_type", "authorization_code")
	form.Set("code", code)
	form.Set("redirect_uri", clientRedirect(client))
	if w.variant&4 == 4 {
		form.Set("code_verifier", c19Verifier)
	}
	return w.tokenReq(ctx, form, client)
}

func (w *c19World) refresh(ctx context.Context, client int, rt string) c19OpRes {
	form := url.Values{}
	form.Set("grant_type", "refresh_token")
	form.Set("refresh_token", rt)
	return w.tokenReq(ctx, form, client)
}

func (w *c19World) revoke(ctx context.Context, client int, tok, hint string) c19OpRes {
	form := url.Values{}
	form.Set("token", tok)
	if hint != "" {
		form.Set("token_type_hint", hint)
	}
	err := w.prov.NewRevocationRequest(ctx, w.post("/revoke", form, client))
	w.prov.WriteRevocationResponse(ctx, httptest.NewRecorder(), err)
	return c19OpRes{Err: errName(err)}
}

func (w *c19World) introspect(ctx context.Context, tok string, use fosite.TokenUse) c19OpRes {
	_, _, err := w.prov.IntrospectToken(ctx, tok, use, w.session())
	if err != nil {
		return c19OpRes{Err: "inactive"}
	}
	return c19OpRes{}
}

func (w *c19World) push(ctx context.Context, client int) (string, c19OpRes) {
	form := url.Values{}
	form.Set("response_type", "code")
	form.Set("state", "state-0123456789")
	form.Set("redirect_uri", clientRedirect(client))
	form.Set("scope", w.scopes())
	form.Set("nonce", "nonce-0123456789")
	if w.variant&4 == 4 {
		form.Set("code_challenge", s256(c19Verifier))
		form.Set("code_challenge_method", "S256")
	}
	if w.variant&1 == 0 {
		form.Set("client_id", clientID(client))
	}
	req := w.post("/par", form, client)
	ar, err := w.prov.NewPushedAuthorizeRequest(ctx, req)
	if err != nil {
		return "", c19OpRes{Err: errName(err)}
	}
	resp, err := w.prov.NewPushedAuthorizeResponse(ctx, ar, w.session())
	if err != nil {
		return "", c19OpRes{Err: errName(err)}
	}
	return resp.GetRequestURI(), c19OpRes{}
}

func (w *c19World) deviceAuthorize(ctx context.Context, client int) (string, c19OpRes) {
	form := url.Values{}
	form.Set("scope", w.scopes())
	form.Set("client_id", clientID(client))
	req := w.post("/device/auth", form, client)
	dr, err := w.prov.NewDeviceRequest(ctx, req)
	if err != nil {
		return "", c19OpRes{Err: errName(err)}
	}
	resp, err := w.prov.NewDeviceResponse(ctx, dr, w.session())
	if err != nil {
		return "", c19OpRes{Err: errName(err)}
	}
	// the resource owner approves on the verification page (integrator's job): the in-memory
	// store keeps the request object itself, so the decision is recorded on it
	for _, stored := range w.store.DeviceAuths {
		stored.SetUserCodeState(fosite.UserCodeAccepted)
		for _, s := range stored.GetRequestedScopes() {
			stored.GrantScope(s)
		}
	}
	return resp.GetDeviceCode(), c19OpRes{}
}

func (w *c19World) poll(ctx context.Context, client int, deviceCode string) c19OpRes {
	form := url.Values{}
	form.Set("grant_type", "urn:ietf:params:oauth:grant-type:device_code")
	form.Set("device_code", deviceCode)
	return w.tokenReq(ctx, form, client)
}

func tokOf(res c19OpRes, kind string) string {
	for _, m := range res.Minted {
		if m.Kind == kind {
			return m.Tok
		}
	}
	return ""
}

// ---------------------------------------------------------------- scenarios
type c19Scenario struct {
	Name  string
	Build func(w *c19World) ([]c19Op, error) // runs the sequential prefix, returns the concurrent operations
}

func (w *c19World) grant(ctx context.Context) (at, rt string, err error) {
	a := w.authorize(ctx, 0, "")
	w.minted = append(w.minted, a.Minted...)
	code := tokOf(a, "code")
	if code == "" {
		return "", "", fmt.Errorf("setup: authorize failed: %s", a.Err)
	}
	r := w.redeem(ctx, 0, code)
	w.minted = append(w.minted, r.Minted...)
	at, rt = tokOf(r, "access"), tokOf(r, "refresh")
	if at == "" || rt == "" {
		return "", "", fmt.Errorf("setup: redeem failed: %s", r.Err)
	}
	return at, rt, nil
}

func c19Scenarios() []c19Scenario {
	bg := context.Background()
	opRefresh := func(w *c19World, rt string) c19Op {
		return c19Op{"refresh", func(ctx context.Context) c19OpRes { return w.refresh(ctx, 0, rt) }}
	}
	opRevoke := func(w *c19World, tok, hint string) c19Op {
		return c19Op{"revoke(" + hint + ")", func(ctx context.Context) c19OpRes { return w.revoke(ctx, 0, tok, hint) }}
	}
	opIntro := func(w *c19World, tok string, use fosite.TokenUse) c19Op {
		return c19Op{"introspect(" + string(use) + ")", func(ctx context.Context) c19OpRes { return w.introspect(ctx, tok, use) }}
	}
	opRedeem := func(w *c19World, code string) c19Op {
		return c19Op{"redeem", func(ctx context.Context) c19OpRes { return w.redeem(ctx, 0, code) }}
	}
	opAuthorize := func(w *c19World) c19Op {
		return c19Op{"authorize", func(ctx context.Context) c19OpRes { return w.authorize(ctx, 0, "") }}
	}
	withGrant := func(f func(w *c19World, at, rt string) []c19Op) func(w *c19World) ([]c19Op, error) {
		return func(w *c19World) ([]c19Op, error) {
			at, rt, err := w.grant(bg)
			if err != nil {
				return nil, err
			}
			return f(w, at, rt), nil
		}
	}
	withCode := func(f func(w *c19World, code string) []c19Op) func(w *c19World) ([]c19Op, error) {
		return func(w *c19World) ([]c19Op, error) {
			a := w.authorize(bg, 0, "")
			w.minted = append(w.minted, a.Minted...)
			code := tokOf(a, "code")
			if code == "" {
				return nil, fmt.Errorf("setup: authorize failed: %s", a.Err)
			}
			return f(w, code), nil
		}
	}
	return []c19Scenario{
		{"revoke-at|introspect-at", withGrant(func(w *c19World, at, rt string) []c19Op {
			return []c19Op{opRevoke(w, at, "access_token"), opIntro(w, at, fosite.AccessToken)}
		})},
		{"revoke-rt|introspect-rt", withGrant(func(w *c19World, at, rt string) []c19Op {
			return []c19Op{opRevoke(w, rt, "refresh_token"), opIntro(w, rt, fosite.RefreshToken)}
		})},
		{"revoke-rt|revoke-at", withGrant(func(w *c19World, at, rt string) []c19Op {
			return []c19Op{opRevoke(w, rt, "refresh_token"), opRevoke(w, at, "access_token")}
		})},
		{"refresh|introspect-at", withGrant(func(w *c19World, at, rt string) []c19Op {
			return []c19Op{opRefresh(w, rt), opIntro(w, at, fosite.AccessToken)}
		})},
		{"refresh|introspect-rt", withGrant(func(w *c19World, at, rt string) []c19Op {
			return []c19Op{opRefresh(w, rt), opIntro(w, rt, fosite.RefreshToken)}
		})},
		{"refresh|revoke-at", withGrant(func(w *c19World, at, rt string) []c19Op {
			return []c19Op{opRefresh(w, rt), opRevoke(w, at, "access_token")}
		})},
		{"refresh|revoke-rt", withGrant(func(w *c19World, at, rt string) []c19Op {
			return []c19Op{opRefresh(w, rt), opRevoke(w, rt, "refresh_token")}
		})},
		{"refresh|refresh", withGrant(func(w *c19World, at, rt string) []c19Op {
			return []c19Op{opRefresh(w, rt), opRefresh(w, rt)}
		})},
		{"redeem|redeem", withCode(func(w *c19World, code string) []c19Op {
			return []c19Op{opRedeem(w, code), opRedeem(w, code)}
		})},
		{"authorize|redeem", withCode(func(w *c19World, code string) []c19Op {
			return []c19Op{opAuthorize(w), opRedeem(w, code)}
		})},
		{"hybrid:redeem|revoke-implicit-at", func(w *c19World) ([]c19Op, error) {
			// two access tokens under one request id: the one issued with the code by the hybrid
			// flow and the one issued when the code is redeemed
			w.variant |= 2
			a := w.hybridAuthorize(bg, 0)
			w.minted = append(w.minted, a.Minted...)
			code, at := tokOf(a, "code"), tokOf(a, "access")
			if code == "" || at == "" {
				return nil, fmt.Errorf("setup: hybrid authorization failed: %s", a.Err)
			}
			return []c19Op{opRedeem(w, code), opRevoke(w, at, "access_token")}, nil
		}},
		{"authorize-refused|authorize-refused", func(w *c19World) ([]c19Op, error) {
			bad := c19Op{"authorize(refused)", func(ctx context.Context) c19OpRes {
				q := url.Values{}
				q.Set("client_id", clientID(0))
				q.Set("response_type", "code")
				q.Set("state", "state-0123456789")
				q.Set("redirect_uri", clientRedirect(0))
				q.Set("scope", "scope-the-client-may-not-request")
				ar, err := w.prov.NewAuthorizeRequest(ctx, httptest.NewRequest("GET", "/auth?"+q.Encode(), nil))
				if err != nil {
					w.prov.WriteAuthorizeError(ctx, httptest.NewRecorder(), ar, err)
				}
				return c19OpRes{Err: errName(err)}
			}}
			return []c19Op{bad, bad}, nil
		}},
		{"par-use|par-use", func(w *c19World) ([]c19Op, error) {
			uri, res := w.push(bg, 0)
			if uri == "" {
				return nil, fmt.Errorf("setup: PAR failed: %s", res.Err)
			}
			use := c19Op{"par-use", func(ctx context.Context) c19OpRes { return w.authorize(ctx, 0, uri) }}
			return []c19Op{use, use}, nil
		}},
		{"device-poll|device-poll", func(w *c19World) ([]c19Op, error) {
			dc, res := w.deviceAuthorize(bg, 0)
			if dc == "" {
				return nil, fmt.Errorf("setup: device authorization failed: %s", res.Err)
			}
			p := c19Op{"device-poll", func(ctx context.Context) c19OpRes { return w.poll(ctx, 0, dc) }}
			return []c19Op{p, p}, nil
		}},
		{"refresh|revoke-at|introspect-at", withGrant(func(w *c19World, at, rt string) []c19Op {
			return []c19Op{opRefresh(w, rt), opRevoke(w, at, "access_token"), opIntro(w, at, fosite.AccessToken)}
		})},
		{"refresh|refresh|revoke-rt", withGrant(func(w *c19World, at, rt string) []c19Op {
			return []c19Op{opRefresh(w, rt), opRefresh(w, rt), opRevoke(w, rt, "refresh_token")}
		})},
		{"redeem|redeem|authorize", withCode(func(w *c19World, code string) []c19Op {
			return []c19Op{opRedeem(w, code), opRedeem(w, code), opAuthorize(w)}
		})},
	}
}

// ---------------------------------------------------------------- one scheduled run
type choicePoint struct{ N, C int }

type schedRun struct {
	Trace  []choicePoint
	Case   Case
	Failed error
}

// a panic of the library while a scenario is being set up or observed (outside the scheduled operations,
// which recover on their own) is an observation - "no operation panics" - not a harness failure
func c19RunSchedule(sc c19Scenario, variant int, choices []int) (ret schedRun) {
	defer func() {
		if p := recover(); p != nil {
			msg := fmt.Sprint(p)
			if len(msg) > 300 {
				msg = msg[:300]
			}
			rp := c19Replay{Kind: "sched", Sched: &c19Sched{Scenario: sc.Name, Variant: variant, Choices: choices, Errs: []string{"panic outside the scheduled operations: " + msg}}}
			ret = schedRun{Trace: nil, Case: Case{Coq: "KSched [0;1] [] (CS [] [] [] [] [] [] [] [] [] []) [] 1", Replay: rp, NonTrivial: true,
				Key: fmt.Sprintf("sched-panic|%s|%d|%v", sc.Name, variant, choices)}}
		}
	}()
	w := newC19World(variant)
	ops, err := sc.Build(w)
	if err != nil {
		return schedRun{Failed: err}
	}
	ctl := &controller{ask: make(chan int), done: make(chan int), grant: map[int]chan struct{}{}}
	for i := range ops {
		ctl.grant[i+1] = make(chan struct{})
	}
	w.store.ctl = ctl
	results := make([]c19OpRes, len(ops))
	for i, op := range ops {
		tid := i + 1
		go func(op c19Op, tid int) {
			defer func() {
				if p := recover(); p != nil {
					results[tid-1].Panic = fmt.Sprint(p)
				}
				ctl.done <- tid
			}()
			results[tid-1] = op.Run(context.WithValue(context.Background(), schedKey{}, tid))
		}(op, tid)
	}
	parked := map[int]bool{}
	finished, await := 0, len(ops)
	var trace []choicePoint
	var switches int
	last := 0
	for finished < len(ops) {
		for await > 0 {
			select {
			case tid := <-ctl.ask:
				parked[tid] = true
			case <-ctl.done:
				finished++
			case <-time.After(20 * time.Second):
				return schedRun{Failed: fmt.Errorf("watchdog: no operation of %s made progress for 20 s (deadlock?) after %d storage calls", sc.Name, len(w.store.log))}
			}
			await--
		}
		if finished == len(ops) {
			break
		}
		var runnable []int
		for t := range parked {
			runnable = append(runnable, t)
		}
		sort.Ints(runnable)
		if len(runnable) == 0 {
			return schedRun{Failed: fmt.Errorf("scheduler: nothing runnable")}
		}
		c := 0
		if len(trace) < len(choices) {
			c = choices[len(trace)] % len(runnable)
		}
		trace = append(trace, choicePoint{len(runnable), c})
		tid := runnable[c]
		if last != 0 && tid != last && parked[last] {
			switches++
		}
		last = tid
		delete(parked, tid)
		ctl.grant[tid] <- struct{}{}
		await = 1
	}
	w.store.ctl = nil
	w.store.logging = false

	// --- observations
	st := w.store
	var logCoq, logTxt []string
	for _, e := range st.log {
		logCoq = append(logCoq, fmt.Sprintf("(%d,%s,%s)", e.Tid, e.Call, e.Res))
		logTxt = append(logTxt, fmt.Sprintf("t%d %s -> %s", e.Tid, e.Call, e.Res))
	}
	all := append([]c19Tok{}, w.minted...)
	panics := 0
	var errs, opNames []string
	for i, r := range results {
		all = append(all, r.Minted...)
		opNames = append(opNames, ops[i].Name)
		if r.Panic != "" {
			panics++
			errs = append(errs, "panic: "+r.Panic)
		} else {
			errs = append(errs, r.Err)
		}
	}
	bg := context.Background()
	var mintedCoq, mintedTxt []string
	for _, m := range all {
		parts := strings.Split(m.Tok, ".")
		sig := parts[len(parts)-1]
		var kd string
		alive := false
		switch m.Kind {
		case "access":
			kd = "TAccess"
			_, _, err := w.prov.IntrospectToken(bg, m.Tok, fosite.AccessToken, w.session())
			alive = err == nil
		case "refresh":
			kd = "TRefresh"
			_, _, err := w.prov.IntrospectToken(bg, m.Tok, fosite.RefreshToken, w.session())
			alive = err == nil
		case "code":
			kd = "TCode"
			_, err := st.MemoryStore.GetAuthorizeCodeSession(bg, sig, nil)
			alive = err == nil
		}
		mintedCoq = append(mintedCoq, fmt.Sprintf("(%s,%d,%s)", kd, st.k(sig), B(alive)))
		mintedTxt = append(mintedTxt, fmt.Sprintf("%s key %d by t%d alive=%v", m.Kind, st.k(sig), m.By, alive))
	}
	digest := c19Digest(st)
	var ch []int
	for _, p := range trace {
		ch = append(ch, p.C)
	}
	rp := c19Replay{Kind: "sched", Sched: &c19Sched{Scenario: sc.Name, Variant: variant, Choices: ch, Ops: opNames, Log: logTxt, Errs: errs, Minted: mintedTxt}}
	coq := fmt.Sprintf("KSched [0;1] %s %s %s %d", L(logCoq), digest, L(mintedCoq), panics)
	return schedRun{Trace: trace, Case: Case{Coq: coq, Replay: rp, NonTrivial: switches > 0 && len(ops) >= 2,
		Key: fmt.Sprintf("sched|%s|%d|%v", sc.Name, variant, ch)}}
}

func sortedPairs(m map[int]string) string {
	ks := make([]int, 0, len(m))
	for k := range m {
		ks = append(ks, k)
	}
	sort.Ints(ks)
	parts := make([]string, len(ks))
	for i, k := range ks {
		parts[i] = fmt.Sprintf("(%d,%s)", k, m[k])
	}
	return "[" + strings.Join(parts, ";") + "]"
}

// c19Digest reads the store's tables after the run (no operation is running any more)
func c19Digest(st *schedStore) string {
	bg := context.Background()
	ms := st.MemoryStore
	codes, at, rt, atidx, rtidx, pk, oi, par, dev, devidx := map[int]string{}, map[int]string{}, map[int]string{}, map[int]string{}, map[int]string{}, map[int]string{}, map[int]string{}, map[int]string{}, map[int]string{}, map[int]string{}
	for k := range ms.AuthorizeCodes {
		r, err := ms.GetAuthorizeCodeSession(bg, k, nil)
		if r != nil {
			codes[st.k(k)] = fmt.Sprintf("(%s,%d)", B(err == nil), st.r(r.GetID()))
		}
	}
	for k, r := range ms.AccessTokens {
		at[st.k(k)] = fmt.Sprint(st.r(r.GetID()))
	}
	for k := range ms.RefreshTokens {
		r, err := ms.GetRefreshTokenSession(bg, k, nil)
		if r != nil {
			rt[st.k(k)] = fmt.Sprintf("(%s,%d)", B(err == nil), st.r(r.GetID()))
		}
	}
	for r, k := range ms.AccessTokenRequestIDs {
		atidx[st.r(r)] = fmt.Sprint(st.k(k))
	}
	for r, k := range ms.RefreshTokenRequestIDs {
		rtidx[st.r(r)] = fmt.Sprint(st.k(k))
	}
	for k, r := range ms.PKCES {
		pk[st.k(k)] = fmt.Sprint(st.r(r.GetID()))
	}
	for k, r := range ms.IDSessions {
		oi[st.k(k)] = fmt.Sprint(st.r(r.GetID()))
	}
	for k, r := range ms.PARSessions {
		par[st.k(k)] = fmt.Sprint(st.r(r.GetID()))
	}
	for k, r := range ms.DeviceAuths {
		dev[st.k(k)] = fmt.Sprint(st.r(r.GetID()))
	}
	dv := reflect.ValueOf(ms.DeviceCodesRequestIDs)
	for _, key := range dv.MapKeys() {
		p := dv.MapIndex(key)
		devidx[st.r(key.String())] = fmt.Sprintf("(%d,%d)", st.k(p.Field(0).String()), st.k(p.Field(1).String()))
	}
	return fmt.Sprintf("(CS %s %s %s %s %s %s %s %s %s %s)", sortedPairs(codes), sortedPairs(at), sortedPairs(rt), sortedPairs(atidx),
		sortedPairs(rtidx), sortedPairs(pk), sortedPairs(oi), sortedPairs(par), sortedPairs(dev), sortedPairs(devidx))
}

// nextChoices: the lexicographically next choice vector in the depth-first enumeration, nil when done
func nextChoices(trace []choicePoint) []int {
	for i := len(trace) - 1; i >= 0; i-- {
		if trace[i].C+1 < trace[i].N {
			out := make([]int, i+1)
			for j := 0; j < i; j++ {
				out[j] = trace[j].C
			}
			out[i] = trace[i].C + 1
			return out
		}
	}
	return nil
}

type schedJob struct {
	sc      c19Scenario
	variant int
	limit   int // enumerate exhaustively up to this many schedules, then fall back to samples
	samples int
	rng     *RNG
}

type schedJobResult struct {
	cases      []Case
	exhaustive bool
	err        error
}

func runSchedJob(j schedJob) schedJobResult {
	var res schedJobResult
	choices := []int{}
	for n := 0; ; n++ {
		run := c19RunSchedule(j.sc, j.variant, choices)
		if run.Failed != nil {
			res.err = fmt.Errorf("%s variant %d choices %v: %w", j.sc.Name, j.variant, choices, run.Failed)
			return res
		}
		res.cases = append(res.cases, run.Case)
		choices = nextChoices(run.Trace)
		if choices == nil {
			res.exhaustive = true
			return res
		}
		if n+1 >= j.limit {
			break
		}
	}
	// too many interleavings: keep what the enumeration produced so far (all schedules that start
	// with operation 1 running far ahead) and add seeded random schedules
	for n := 0; n < j.samples; n++ {
		ch := make([]int, 60)
		for i := range ch {
			ch[i] = j.rng.Intn(6)
		}
		run := c19RunSchedule(j.sc, j.variant, ch)
		if run.Failed != nil {
			res.err = fmt.Errorf("%s variant %d choices %v: %w", j.sc.Name, j.variant, ch, run.Failed)
			return res
		}
		res.cases = append(res.cases, run.Case)
	}
	return res
}

func c19SchedStream(t *testing.T, e Env, out *Out, only *c19Replay) {
	scs := c19Scenarios()
	if only != nil {
		for _, sc := range scs {
			if sc.Name == only.Sched.Scenario {
				run := c19RunSchedule(sc, only.Sched.Variant, only.Sched.Choices)
				if run.Failed != nil {
					t.Fatal(run.Failed)
				}
				out.Add(run.Case)
				out.Count("sched-" + sc.Name)
				return
			}
		}
		t.Fatalf("unknown scenario %q", only.Sched.Scenario)
	}
	r := NewRNG(e.Seed)
	limit, samples := 120, 60
	variants := []int{0, 4, 3}
	if e.Tier == "thorough" {
		limit, samples = 2500, 1000
		variants = []int{0, 1, 2, 3, 4, 5, 6, 7}
	}
	var jobs []schedJob
	for _, sc := range scs {
		for _, v := range variants {
			jobs = append(jobs, schedJob{sc: sc, variant: v, limit: limit, samples: samples, rng: r.Fork()})
		}
	}
	results := make([]schedJobResult, len(jobs))
	var wg sync.WaitGroup
	sem := make(chan struct{}, 8)
	for i := range jobs {
		wg.Add(1)
		go func(i int) {
			defer wg.Done()
			sem <- struct{}{}
			results[i] = runSchedJob(jobs[i])
			<-sem
		}(i)
	}
	wg.Wait()
	exh := []string{}
	for i, res := range results {
		if res.err != nil {
			t.Fatalf("C19 schedule stream: %v", res.err)
		}
		for _, c := range res.cases {
			out.Add(c)
			out.Count("sched-" + jobs[i].sc.Name)
		}
		if res.exhaustive {
			exh = append(exh, fmt.Sprintf("%s/v%d(%d)", jobs[i].sc.Name, jobs[i].variant, len(res.cases)))
		}
	}
	out.Notes["schedules_enumerated_exhaustively"] = exh
}

func c19MoreStreams(t *testing.T, e Env, out *Out, only *c19Replay, tab *LockTable) {
	if only == nil || only.Kind == "sched" {
		c19SchedStream(t, e, out, only)
	}
	if only == nil || only.Kind == "api" {
		c19ApiStream(t, e, out, only)
	}
	if only == nil || only.Kind == "stress" {
		c19StressStream(t, e, out, only)
	}
}
