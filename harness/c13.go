package hx

// C13: authorization requests are validated and tokens never travel in the query string.
//
// Every case is one authorization request against a provider built by compose.ComposeAllEnabled over
// a fresh storage.MemoryStore holding (at most) one client: NewAuthorizeRequest, the embedding
// application's grant, NewAuthorizeResponse, WriteAuthorizeResponse / WriteAuthorizeError on an
// httptest.ResponseRecorder, and, when a code was handed out, its presentation at the token endpoint.
// The case carries the inputs in the form the Coq model takes them (Model/Authz.v) and the projected
// observation (Cases/CasesC13.v).  Request objects are really signed (go-jose, RSA and ECDSA keys) and
// the client's JWKS is really registered; the case only tells the model which key material signed.

import (
	"context"
	"crypto/ecdsa"
	"crypto/elliptic"
	"crypto/rand"
	"crypto/rsa"
	"encoding/base64"
	"encoding/json"
	"fmt"
	"html"
	"io"
	"net/http"
	"net/http/httptest"
	"net/url"
	"regexp"
	"sort"
	"strings"
	"sync"
	"testing"
	"time"

	jose "github.com/go-jose/go-jose/v3"
	retryablehttp "github.com/hashicorp/go-retryablehttp"

	"github.com/ory/fosite"
	"github.com/ory/fosite/compose"
	"github.com/ory/fosite/handler/openid"
	"github.com/ory/fosite/storage"
	"github.com/ory/fosite/token/jwt"
)

// ---------------------------------------------------------------- input descriptors (replay records)

type c13Key struct {
	Kid string `json:"kid"`
	Use string `json:"use"`
	Mat int    `json:"mat"` // key material: 1,2 RSA; 3,4 ECDSA P-256
}

type c13Client struct {
	Public    bool     `json:"public"`
	Grants    []string `json:"grants"`
	RTypes    []string `json:"response_types"`
	Scopes    []string `json:"scopes"`
	Redirects []string `json:"redirect_uris"`
	RMIface   bool     `json:"response_mode_client"`
	RModes    []string `json:"response_modes"`
	OIDC      bool     `json:"oidc_client"`
	HasJWKS   bool     `json:"has_jwks"`
	Keys      []c13Key `json:"keys"`
	ReqURIs   []string `json:"request_uris"`
	ROAlg     string   `json:"request_object_signing_alg"`
}

type c13RO struct {
	Malformed bool           `json:"malformed,omitempty"`
	Alg       string         `json:"alg"`
	Kid       string         `json:"kid"`
	Signer    int            `json:"signer"` // key material that signs; 0 = none; 9 / 10 = keys never registered
	Strip     bool           `json:"strip,omitempty"`
	Expired   bool           `json:"expired,omitempty"`
	Claims    map[string]any `json:"claims"`
}

type c13Sess struct {
	OIDC    bool   `json:"oidc"`
	Subject string `json:"subject"`
	Auth    *int64 `json:"auth_offset_s"` // relative to the time of the request; nil = zero time
	Rat     *int64 `json:"rat_offset_s"`
}

type c13Input struct {
	MinRaw   int         `json:"min_parameter_entropy"`
	Scope    string      `json:"scope_strategy"`
	ClientID string      `json:"registered_id"`
	Client   *c13Client  `json:"client"`
	Params   [][2]string `json:"params"` // ordered query; the value "<RO>" of "request" stands for the signed object
	RO       *c13RO      `json:"request_object"`
	FetchOK  bool        `json:"fetch_ok"`
	Granted  []string    `json:"granted"`
	Sess     c13Sess     `json:"session"`
	Kind     string      `json:"kind"`
	Push     bool        `json:"push,omitempty"` // the same parameters sent to the pushed-authorization endpoint by the authenticated client
	Obs      *c13Obs     `json:"observed,omitempty"`
}

type c13Obs struct {
	ReqErr  string   `json:"request_error"`
	Eff     []string `json:"effective_form"`
	State   string   `json:"state"`
	RespErr string   `json:"response_error"`
	Keys    []string `json:"response_keys"`
	Codes   int      `json:"codes_stored"`
	Access  int      `json:"access_tokens_stored"`
	OIDC    int      `json:"oidc_sessions_stored"`
	Status  int      `json:"http_status"`
	Q       []string `json:"query_keys"`
	F       []string `json:"fragment_keys"`
	B       []string `json:"form_keys"`
	States  []string `json:"state_values"`
	JSONErr string   `json:"json_error"`
	Redeem  int      `json:"redeem"`
}

var c13Watched = []string{"state", "response_type", "response_mode", "redirect_uri", "scope", "nonce", "prompt", "max_age", "registration", "client_id"}
var c13Interest = map[string]bool{"access_token": true, "code": true, "error": true, "expires_in": true, "id_token": true, "scope": true, "state": true, "token_type": true}

// ---------------------------------------------------------------- key material

var (
	c13Once sync.Once
	c13RSA  = map[int]*rsa.PrivateKey{}
	c13EC   = map[int]*ecdsa.PrivateKey{}
)

func c13Keys() {
	c13Once.Do(func() {
		for _, m := range []int{1, 2, 9} {
			k, err := rsa.GenerateKey(rand.Reader, 2048)
			if err != nil {
				panic(err)
			}
			c13RSA[m] = k
		}
		for _, m := range []int{3, 4, 10} {
			k, err := ecdsa.GenerateKey(elliptic.P256(), rand.Reader)
			if err != nil {
				panic(err)
			}
			c13EC[m] = k
		}
	})
}

func c13IsRSA(mat int) bool { return mat == 1 || mat == 2 || mat == 9 }

func c13Public(mat int) any {
	if c13IsRSA(mat) {
		return &c13RSA[mat].PublicKey
	}
	return &c13EC[mat].PublicKey
}

// ---------------------------------------------------------------- client types (interface combinations)

type c13OIDCRMClient struct {
	*fosite.DefaultOpenIDConnectClient
	ResponseModes []fosite.ResponseModeType
}

func (c *c13OIDCRMClient) GetResponseModes() []fosite.ResponseModeType { return c.ResponseModes }

func c13BuildClient(id string, d *c13Client) fosite.Client {
	base := &fosite.DefaultClient{
		ID:            id,
		Public:        d.Public,
		RedirectURIs:  append([]string{}, d.Redirects...),
		GrantTypes:    append([]string{}, d.Grants...),
		ResponseTypes: append([]string{}, d.RTypes...),
		Scopes:        append([]string{}, d.Scopes...),
	}
	if !d.Public {
		base.Secret = hashSecret("c13-secret")
	}
	modes := make([]fosite.ResponseModeType, len(d.RModes))
	for i, m := range d.RModes {
		modes[i] = fosite.ResponseModeType(m)
	}
	if !d.OIDC {
		if d.RMIface {
			return &fosite.DefaultResponseModeClient{DefaultClient: base, ResponseModes: modes}
		}
		return base
	}
	oc := &fosite.DefaultOpenIDConnectClient{
		DefaultClient:                 base,
		RequestURIs:                   append([]string{}, d.ReqURIs...),
		RequestObjectSigningAlgorithm: d.ROAlg,
		TokenEndpointAuthMethod:       "client_secret_basic",
	}
	if d.Public {
		oc.TokenEndpointAuthMethod = "none"
	}
	if d.HasJWKS {
		set := &jose.JSONWebKeySet{}
		for _, k := range d.Keys {
			set.Keys = append(set.Keys, jose.JSONWebKey{KeyID: k.Kid, Use: k.Use, Key: c13Public(k.Mat)})
		}
		oc.JSONWebKeys = set
	}
	if d.RMIface {
		return &c13OIDCRMClient{DefaultOpenIDConnectClient: oc, ResponseModes: modes}
	}
	return oc
}

// ---------------------------------------------------------------- request objects

func c13Sign(ro *c13RO) string {
	if ro.Malformed {
		return "this.is-not.a jwt"
	}
	claims := jwt.MapClaims{}
	for k, v := range ro.Claims {
		claims[k] = v
	}
	if ro.Expired {
		claims["exp"] = time.Now().Add(-time.Hour).Unix()
	}
	var raw string
	var err error
	switch {
	case ro.Alg == "none":
		t := jwt.NewWithClaims(jwt.SigningMethodNone, claims)
		if ro.Kid != "" {
			t.Header["kid"] = ro.Kid
		}
		raw, err = t.SignedString(jwt.UnsafeAllowNoneSignatureType)
	case ro.Alg == "HS256":
		t := jwt.NewWithClaims(jose.HS256, claims)
		if ro.Kid != "" {
			t.Header["kid"] = ro.Kid
		}
		raw, err = t.SignedString([]byte("0123456789abcdef0123456789abcdef0123456789abcdef"))
	default:
		t := jwt.NewWithClaims(jose.SignatureAlgorithm(ro.Alg), claims)
		if ro.Kid != "" {
			t.Header["kid"] = ro.Kid
		}
		if c13IsRSA(ro.Signer) {
			raw, err = t.SignedString(c13RSA[ro.Signer])
		} else {
			raw, err = t.SignedString(c13EC[ro.Signer])
		}
	}
	if err != nil {
		panic(fmt.Sprintf("c13: cannot sign request object %+v: %v", ro, err))
	}
	if ro.Strip {
		// keep header and payload, replace the signature by another well-formed one
		parts := strings.Split(raw, ".")
		parts[2] = base64.RawURLEncoding.EncodeToString([]byte("not the signature of this object, but long enough to look like one"))
		raw = strings.Join(parts, ".")
	}
	return raw
}

// the claims as fosite will see them (go-jose JSON decoding), rendered with fmt.Sprintf("%s", v)
func c13RenderedClaims(raw string) [][2]string {
	parts := strings.Split(raw, ".")
	if len(parts) < 2 {
		return nil
	}
	payload, err := base64.RawURLEncoding.DecodeString(parts[1])
	if err != nil {
		return nil
	}
	mc := jwt.MapClaims{}
	if err := json.Unmarshal(payload, &mc); err != nil {
		return nil
	}
	keys := make([]string, 0, len(mc))
	for k := range mc {
		keys = append(keys, k)
	}
	sort.Strings(keys)
	out := make([][2]string, 0, len(keys))
	for _, k := range keys {
		out = append(out, [2]string{k, fmt.Sprintf("%s", mc[k])})
	}
	return out
}

type c13RT struct {
	ok   bool
	body string
}

func (s c13RT) RoundTrip(r *http.Request) (*http.Response, error) {
	code, body := 404, "not found"
	if s.ok {
		code, body = 200, s.body
	}
	return &http.Response{StatusCode: code, Status: fmt.Sprintf("%d", code), Body: io.NopCloser(strings.NewReader(body)),
		Header: http.Header{}, Request: r, Proto: "HTTP/1.1", ProtoMajor: 1, ProtoMinor: 1}, nil
}

// ---------------------------------------------------------------- execution

var c13InputRe = regexp.MustCompile(`<input type="hidden" name="([^"]*)" value="([^"]*)"/>`)

func c13Project(keys []string) []string {
	out := []string{}
	seen := map[string]bool{}
	for _, k := range keys {
		if c13Interest[k] && !seen[k] {
			seen[k] = true
			out = append(out, k)
		}
	}
	sort.Strings(out)
	return out
}

func c13ValuesKeys(v url.Values) []string {
	ks := make([]string, 0, len(v))
	for k := range v {
		ks = append(ks, k)
	}
	return ks
}

func c13ReadWritten(rec *httptest.ResponseRecorder, o *c13Obs) {
	o.Status = rec.Code
	o.Q, o.F, o.B, o.States = []string{}, []string{}, []string{}, []string{}
	if loc := rec.Header().Get("Location"); loc != "" {
		main, frag, _ := strings.Cut(loc, "#")
		if i := strings.Index(main, "?"); i >= 0 {
			if q, err := url.ParseQuery(main[i+1:]); err == nil {
				o.Q = c13Project(c13ValuesKeys(q))
				o.States = append(o.States, q["state"]...)
			} else {
				o.Q = []string{"unparsable"}
			}
		}
		if frag != "" {
			if q, err := url.ParseQuery(frag); err == nil {
				o.F = c13Project(c13ValuesKeys(q))
				o.States = append(o.States, q["state"]...)
			} else {
				o.F = []string{"unparsable"}
			}
		}
		return
	}
	body := rec.Body.String()
	if strings.HasPrefix(rec.Header().Get("Content-Type"), "application/json") {
		var m map[string]any
		if err := json.Unmarshal([]byte(body), &m); err == nil {
			if e, ok := m["error"].(string); ok {
				o.JSONErr = e
			}
		}
		return
	}
	var keys []string
	for _, m := range c13InputRe.FindAllStringSubmatch(body, -1) {
		k := html.UnescapeString(m[1])
		keys = append(keys, k)
		if k == "state" {
			o.States = append(o.States, html.UnescapeString(m[2]))
		}
	}
	o.B = c13Project(keys)
}

type c13Redir struct {
	Raw                           string
	Match, Valid, Revalid, Secure bool
}

func c13RedirVerdict(raw string, cl fosite.Client) c13Redir {
	rv := c13Redir{Raw: raw}
	u, err := fosite.MatchRedirectURIWithClientRedirectURIs(raw, cl)
	if err != nil {
		return rv
	}
	rv.Match = true
	rv.Valid = fosite.IsValidRedirectURI(u)
	if u2, err := fosite.MatchRedirectURIWithClientRedirectURIs(u.String(), cl); err == nil {
		rv.Revalid = fosite.IsValidRedirectURI(u2)
	}
	rv.Secure = fosite.IsRedirectURISecure(context.Background(), u)
	return rv
}

const c13Now = int64(1000000)

// lists that occur in most registrations have names in Cases/CasesC13.v
func c13QL(l []string) string {
	switch strings.Join(l, "|") {
	case "code|token|id_token|code token|code id_token|id_token token|code id_token token":
		return "RT7"
	case "openid|profile|offline|photos.*":
		return "SC4"
	case "query|fragment|form_post":
		return "RM3"
	}
	return QL(l)
}

func c13Exec(in *c13Input) Case {
	c13Keys()
	ctx := context.Background()
	store := storage.NewMemoryStore()
	var cl fosite.Client
	if in.Client != nil {
		cl = c13BuildClient(in.ClientID, in.Client)
		store.Clients[in.ClientID] = cl
	}
	roRaw := ""
	if in.RO != nil {
		roRaw = c13Sign(in.RO)
	}
	hc := retryablehttp.NewClient()
	hc.Logger = nil
	hc.RetryMax = 0
	hc.HTTPClient = &http.Client{Transport: c13RT{ok: in.FetchOK, body: roRaw}}
	conf := &fosite.Config{
		GlobalSecret:        []byte("0123456789abcdef0123456789abcdef-global"),
		MinParameterEntropy: in.MinRaw,
		ScopeStrategy:       scopeStrategy(in.Scope),
		HTTPClient:          hc,
		IDTokenIssuer:       "https://as.example",
		TokenURL:            "https://as.example/token",
	}
	prov := compose.ComposeAllEnabled(conf, store, theKey())

	// the request
	var qs []string
	for _, p := range in.Params {
		v := p[1]
		if p[0] == "request" && v == "<RO>" {
			v = roRaw
		}
		qs = append(qs, url.QueryEscape(p[0])+"="+url.QueryEscape(v))
	}
	req := httptest.NewRequest("GET", "https://as.example/auth?"+strings.Join(qs, "&"), nil)

	o := &c13Obs{Eff: []string{}, Keys: []string{}}
	rec := httptest.NewRecorder()
	now0 := time.Now().UTC().Truncate(time.Second)
	var ar fosite.AuthorizeRequester
	var err error
	if in.Push {
		body := strings.Join(qs, "&")
		preq := httptest.NewRequest("POST", "https://as.example/par", strings.NewReader(body))
		preq.Header.Set("Content-Type", "application/x-www-form-urlencoded")
		if in.Client != nil && !in.Client.Public {
			preq.SetBasicAuth(url.QueryEscape(in.ClientID), url.QueryEscape("c13-secret"))
		}
		ar, err = prov.NewPushedAuthorizeRequest(ctx, preq)
	} else {
		ar, err = prov.NewAuthorizeRequest(ctx, req)
	}
	for _, k := range c13Watched {
		o.Eff = append(o.Eff, ar.GetRequestForm().Get(k))
	}
	o.State = ar.GetState()
	issued := false
	var resp fosite.AuthorizeResponder
	if in.Push {
		if err != nil {
			o.ReqErr = errName(err)
		}
	} else if err != nil {
		o.ReqErr = errName(err)
		prov.WriteAuthorizeError(ctx, rec, ar, err)
	} else {
		for _, s := range in.Granted {
			ar.GrantScope(s)
		}
		var sess fosite.Session
		if in.Sess.OIDC {
			cls := &jwt.IDTokenClaims{Subject: in.Sess.Subject}
			if in.Sess.Auth != nil {
				cls.AuthTime = now0.Add(time.Duration(*in.Sess.Auth) * time.Second)
			}
			if in.Sess.Rat != nil {
				cls.RequestedAt = now0.Add(time.Duration(*in.Sess.Rat) * time.Second)
			}
			sess = &openid.DefaultSession{Claims: cls, Headers: &jwt.Headers{}, Subject: in.Sess.Subject}
		} else {
			sess = &fosite.DefaultSession{Subject: in.Sess.Subject}
		}
		resp, err = prov.NewAuthorizeResponse(ctx, ar, sess)
		o.Codes, o.Access, o.OIDC = len(store.AuthorizeCodes), len(store.AccessTokens), len(store.IDSessions)
		if err != nil {
			o.RespErr = errName(err)
			prov.WriteAuthorizeError(ctx, rec, ar, err)
		} else {
			issued = true
			o.Keys = c13Project(c13ValuesKeys(resp.GetParameters()))
			prov.WriteAuthorizeResponse(ctx, rec, ar, resp)
		}
	}
	if !in.Push {
		c13ReadWritten(rec, o)
	}

	// the code at the token endpoint
	if issued && resp.GetCode() != "" && in.Client != nil {
		form := url.Values{}
		form.Set("grant_type", "authorization_code")
		form.Set("code", resp.GetCode())
		if ru := ar.GetRequestForm().Get("redirect_uri"); ru != "" {
			form.Set("redirect_uri", ru)
		}
		treq := httptest.NewRequest("POST", "https://as.example/token", nil)
		if in.Client.Public {
			form.Set("client_id", in.ClientID)
		} else {
			treq.SetBasicAuth(url.QueryEscape(in.ClientID), url.QueryEscape("c13-secret"))
		}
		treq2 := httptest.NewRequest("POST", "https://as.example/token", strings.NewReader(form.Encode()))
		treq2.Header = treq.Header
		treq2.Header.Set("Content-Type", "application/x-www-form-urlencoded")
		o.Redeem = 2
		tar, terr := prov.NewAccessRequest(ctx, treq2, &openid.DefaultSession{Claims: &jwt.IDTokenClaims{Subject: in.Sess.Subject}, Headers: &jwt.Headers{}})
		if terr == nil {
			var tresp fosite.AccessResponder
			tresp, terr = prov.NewAccessResponse(ctx, tar)
			if terr == nil && tresp.GetAccessToken() != "" {
				o.Redeem = 3
			}
		}
		if terr != nil && errName(terr) == "unauthorized_client" {
			o.Redeem = 1
		}
	}

	// ---- the case as a Coq term
	clCoq := "None"
	redirs := []string{}
	if in.Client != nil {
		d := in.Client
		jwks := "None"
		if d.OIDC && d.HasJWKS {
			ks := make([]string, len(d.Keys))
			for i, k := range d.Keys {
				ks[i] = fmt.Sprintf("Jk %s %s %s %d", Q(k.Kid), Q(k.Use), B(c13IsRSA(k.Mat)), k.Mat)
			}
			jwks = "(Some " + L(ks) + ")"
		}
		ruris, roalg := []string{}, ""
		if d.OIDC {
			ruris, roalg = d.ReqURIs, d.ROAlg
		}
		rmodes := []string{}
		if d.RMIface {
			rmodes = d.RModes
		}
		clCoq = fmt.Sprintf("(Some (Cl %s %s %s %s %s %s %s %s %s %s))", B(d.Public), QL(cl.GetGrantTypes()), c13QL(cl.GetResponseTypes()),
			c13QL(d.Scopes), B(d.RMIface), c13QL(rmodes), B(d.OIDC), jwks, QL(ruris), Q(roalg))
		// matcher verdicts for every candidate redirect_uri value
		cands := []string{""}
		for _, p := range in.Params {
			if p[0] == "redirect_uri" {
				cands = append(cands, p[1])
			}
		}
		if in.RO != nil {
			if v, ok := in.RO.Claims["redirect_uri"].(string); ok {
				cands = append(cands, v)
			}
		}
		seen := map[string]bool{}
		for _, c := range cands {
			if seen[c] {
				continue
			}
			seen[c] = true
			rv := c13RedirVerdict(c, cl)
			redirs = append(redirs, fmt.Sprintf("Rd %s %s %s %s %s", Q(c), B(rv.Match), B(rv.Valid), B(rv.Revalid), B(rv.Secure)))
		}
	}
	formCoq := make([]string, len(in.Params))
	for i, p := range in.Params {
		formCoq[i] = fmt.Sprintf("(%s,%s)", Q(p[0]), Q(p[1]))
	}
	roCoq := "None"
	if in.RO != nil {
		if in.RO.Malformed {
			roCoq = "(Some RoMalformed)"
		} else {
			cls := c13RenderedClaims(roRaw)
			cs := make([]string, len(cls))
			for i, kv := range cls {
				cs[i] = fmt.Sprintf("(%s,%s)", Q(kv[0]), Q(kv[1]))
			}
			signer := "None"
			if in.RO.Alg != "none" && in.RO.Alg != "HS256" && !in.RO.Strip {
				signer = fmt.Sprintf("(Some %d)", in.RO.Signer)
			}
			roCoq = fmt.Sprintf("(Some (RoJwt (Jw %s %s %s %s %s)))", Q(in.RO.Alg), Q(in.RO.Kid), signer, B(!in.RO.Expired), L(cs))
		}
	}
	optZ := func(p *int64) string {
		if p == nil {
			return "None"
		}
		return "(Some " + Z(c13Now+*p) + ")"
	}
	strat := map[string]string{"exact": "SExact", "hierarchic": "SHierarchic", "wildcard": "SWildcard"}[in.Scope]
	// [] for the effective form stands for "the values of the query" (first value of each key)
	effCoq := QL(o.Eff)
	{
		first := map[string]string{}
		for i := len(in.Params) - 1; i >= 0; i-- {
			first[in.Params[i][0]] = in.Params[i][1]
		}
		same := true
		for i, k := range c13Watched {
			if o.Eff[i] != first[k] {
				same = false
			}
		}
		if same {
			effCoq = "[]"
		}
	}
	obsCoq := fmt.Sprintf("(Ob %s %s %s %s %s %d %d %d %s %s %s %s %s %s %d)", Q(o.ReqErr), effCoq, Q(o.State), Q(o.RespErr), QL(o.Keys),
		o.Codes, o.Access, o.OIDC, Z(int64(o.Status)), QL(o.Q), QL(o.F), QL(o.B), QL(o.States), Q(o.JSONErr), o.Redeem)
	term := fmt.Sprintf("KS (Cf %d %s) %s %s (Rq %s %s %s %s) %s (Se %s %s %s %s) %s %s",
		in.MinRaw, strat, Q(in.ClientID), clCoq, L(formCoq), roCoq, B(in.FetchOK), L(redirs), QL(in.Granted),
		B(in.Sess.OIDC), Q(in.Sess.Subject), optZ(in.Sess.Auth), optZ(in.Sess.Rat), Z(c13Now), obsCoq)

	if in.Push {
		term = fmt.Sprintf("IPush (Cf %d %s) %s %s (Rq %s %s %s %s) %s %s %s",
			in.MinRaw, strat, Q(in.ClientID), clCoq, L(formCoq), roCoq, B(in.FetchOK), L(redirs), Q(o.ReqErr), QL(o.Eff), Q(o.State))
	}
	rp := *in
	rp.Obs = o
	kb, _ := json.Marshal(in)
	return Case{Coq: term, Replay: rp, NonTrivial: in.Client != nil && o.ReqErr != "invalid_client", Key: string(kb)}
}

// ---------------------------------------------------------------- generators

var c13Combos = []string{"code", "token", "id_token", "code token", "code id_token", "id_token token", "code id_token token"}
var c13RedirectPool = []string{"https://app.example/cb", "https://app.example/cb?foo=bar", "http://insecure.example/cb", "http://localhost:3000/cb", "http://127.0.0.1/cb", "custom://app/cb"}

func c13Subset(r *RNG, l []string, pct int) []string {
	out := []string{}
	for _, x := range l {
		if r.Chance(pct) {
			out = append(out, x)
		}
	}
	return out
}

func c13Shuffle(r *RNG, l []string) []string {
	out := append([]string{}, l...)
	for i := len(out) - 1; i > 0; i-- {
		j := r.Intn(i + 1)
		out[i], out[j] = out[j], out[i]
	}
	return out
}

func c13StrOfLen(n int) string {
	const a = "s0123456789abcdefghijklmnopqrstuvwxyz"
	b := make([]byte, n)
	for i := range b {
		b[i] = a[i%len(a)]
	}
	return string(b)
}

func c13AroundMin(r *RNG, min int, tag string) string {
	switch r.Intn(20) {
	case 0:
		return ""
	case 1, 2:
		return tag + c13StrOfLen(min - 1)[len(tag):]
	case 3:
		return tag + c13StrOfLen(1)[1:]
	case 4, 5, 6, 7, 8, 9, 10:
		return tag + c13StrOfLen(min)[len(tag):]
	case 11, 12, 13:
		return tag + c13StrOfLen(min + 1)[len(tag):]
	}
	return tag + c13StrOfLen(min + 9)[len(tag):]
}

func c13EffMin(raw int) int {
	if raw == 0 {
		return 8
	}
	return raw
}

func c13GenClient(r *RNG) *c13Client {
	c := &c13Client{}
	c.Public = r.Chance(35)
	switch r.Intn(10) {
	case 0:
		c.Grants = []string{}
	case 1:
		c.Grants = []string{"authorization_code", "Implicit"}
	case 2:
		c.Grants = []string{"implicit"}
	case 3:
		c.Grants = []string{"authorization_code"}
	case 4:
		c.Grants = []string{"refresh_token", "client_credentials"}
	default:
		c.Grants = c13Subset(r, []string{"authorization_code", "implicit", "refresh_token"}, 70)
	}
	switch r.Intn(8) {
	case 0:
		c.RTypes = []string{}
	case 1:
		c.RTypes = append([]string{}, c13Combos...)
	case 2:
		c.RTypes = []string{"token id_token", "id_token code", "token  code"}
	case 3:
		c.RTypes = []string{"code", "Token", "ID_TOKEN token"}
	default:
		c.RTypes = c13Subset(r, c13Combos, 55)
		if r.Chance(10) {
			c.RTypes = append(c.RTypes, "code zzz")
		}
	}
	c.Scopes = []string{"openid", "profile", "offline", "photos.*"}
	if r.Chance(6) {
		c.Scopes = []string{"profile"}
	}
	if r.Chance(4) {
		c.Scopes = []string{"OpenID", "profile"}
	}
	switch r.Intn(6) {
	case 0:
		c.Redirects = []string{c13RedirectPool[0]}
	case 1:
		c.Redirects = []string{c13RedirectPool[1]}
	case 2:
		c.Redirects = []string{c13RedirectPool[0], c13RedirectPool[2]}
	case 3:
		c.Redirects = []string{c13RedirectPool[3], c13RedirectPool[4], c13RedirectPool[0]}
	case 4:
		c.Redirects = []string{c13RedirectPool[2]}
	default:
		c.Redirects = []string{c13RedirectPool[0], c13RedirectPool[1], c13RedirectPool[5]}
	}
	c.RMIface = r.Chance(80)
	if c.RMIface {
		c.RModes = c13Subset(r, []string{"query", "fragment", "form_post"}, 75)
	}
	c.OIDC = r.Chance(65)
	if c.OIDC {
		c.HasJWKS = r.Chance(88)
		if c.HasJWKS {
			pool := []c13Key{{"k1", "sig", 1}, {"k2", "sig", 3}, {"k1", "sig", 2}, {"k3", "enc", 2}, {"k4", "sig", 4}, {"", "sig", 1}}
			for _, k := range pool {
				if r.Chance(45) {
					c.Keys = append(c.Keys, k)
				}
			}
			if c.Keys == nil {
				c.Keys = []c13Key{}
			}
		}
		c.ReqURIs = c13Subset(r, []string{"https://rp.example/ro/1", "https://rp.example/ro/2"}, 50)
		c.ROAlg = Pick(r, []string{"", "", "", "RS256", "ES256", "none", "PS256"})
	}
	return c
}

func c13GenRO(r *RNG, c *c13Client, min int, adversarial bool) *c13RO {
	ro := &c13RO{Claims: map[string]any{}}
	ro.Alg = Pick(r, []string{"RS256", "RS256", "ES256", "PS256", "none", "RS384"})
	if c.ROAlg != "" && r.Chance(70) {
		ro.Alg = c.ROAlg
	}
	pickSigner := func() {
		switch ro.Alg {
		case "none", "HS256":
			ro.Signer = 0
		case "ES256":
			ro.Signer = Pick(r, []int{3, 3, 4, 10})
		default:
			ro.Signer = Pick(r, []int{1, 1, 2, 9})
		}
	}
	pickSigner()
	ro.Kid = Pick(r, []string{"", "k1", "k2", "k4", "nope"})
	// most objects are built to verify: a registered signature key, its kid (or none), an algorithm of
	// its family that the registration allows
	if !adversarial && r.Chance(75) {
		var fit []c13Key
		for _, k := range c.Keys {
			if k.Use != "sig" {
				continue
			}
			switch {
			case c.ROAlg == "" || c.ROAlg == "none":
				fit = append(fit, k)
			case strings.HasPrefix(c.ROAlg, "ES") && !c13IsRSA(k.Mat), !strings.HasPrefix(c.ROAlg, "ES") && c13IsRSA(k.Mat):
				fit = append(fit, k)
			}
		}
		if c.ROAlg == "none" || (len(fit) == 0 && c.ROAlg == "") {
			ro.Alg, ro.Signer = "none", 0
		} else if len(fit) > 0 {
			k := fit[r.Intn(len(fit))]
			ro.Signer = k.Mat
			ro.Kid = k.Kid
			if r.Chance(15) {
				ro.Kid = ""
			}
			if c.ROAlg != "" {
				ro.Alg = c.ROAlg
			} else if c13IsRSA(k.Mat) {
				ro.Alg = Pick(r, []string{"RS256", "PS256", "RS384"})
			} else {
				ro.Alg = "ES256"
			}
		}
	} else
	// otherwise often a kid that belongs to some registered key
	if len(c.Keys) > 0 && r.Chance(65) {
		k := c.Keys[r.Intn(len(c.Keys))]
		ro.Kid = k.Kid
		if k.Use == "sig" && r.Chance(85) {
			if c13IsRSA(k.Mat) && (strings.HasPrefix(ro.Alg, "RS") || strings.HasPrefix(ro.Alg, "PS")) {
				ro.Signer = k.Mat
			}
			if !c13IsRSA(k.Mat) && strings.HasPrefix(ro.Alg, "ES") {
				ro.Signer = k.Mat
			}
		}
	}
	if adversarial {
		switch r.Intn(7) {
		case 0:
			ro.Malformed = true
		case 1:
			ro.Alg = "HS256"
			ro.Signer = 0
		case 2:
			if ro.Alg != "none" {
				ro.Strip = true
			}
		case 3:
			ro.Expired = true
		case 4:
			ro.Alg = "none"
			ro.Signer = 0
		case 5:
			if ro.Alg == "ES256" {
				ro.Signer = 10
			} else if ro.Alg != "none" {
				ro.Signer = 9
			}
		}
	}
	if r.Chance(8) {
		ro.Expired = true
	}
	// claims that compete with the query
	if r.Chance(60) {
		ro.Claims["state"] = c13AroundMin(r, min, "ro")
	}
	if r.Chance(40) {
		ro.Claims["nonce"] = c13AroundMin(r, min, "rn")
	}
	if r.Chance(35) {
		ro.Claims["response_type"] = Pick(r, []string{"code", "token", "id_token token", "code id_token", "id_token"})
	}
	if r.Chance(25) {
		ro.Claims["response_mode"] = Pick(r, []string{"query", "fragment", "form_post", "bogus"})
	}
	if r.Chance(25) {
		ro.Claims["redirect_uri"] = Pick(r, append([]string{"https://evil.example/cb"}, c.Redirects...))
	}
	if r.Chance(30) {
		ro.Claims["scope"] = Pick(r, []string{"profile", "openid offline", "offline  profile", "admin"})
	}
	if r.Chance(15) {
		ro.Claims["prompt"] = Pick(r, []string{"none", "login", "bogus"})
	}
	if r.Chance(12) {
		if r.Bool() {
			ro.Claims["max_age"] = "300"
		} else {
			ro.Claims["max_age"] = 300
		}
	}
	if r.Chance(6) {
		ro.Claims["registration"] = "{}"
	}
	if r.Chance(6) {
		ro.Claims["client_id"] = "someone-else"
	}
	return ro
}

func c13GenSession(r *RNG, in *c13Input) {
	i64 := func(v int64) *int64 { return &v }
	in.Sess = c13Sess{OIDC: true, Subject: "alice", Auth: i64(0), Rat: i64(0)}
	if r.Chance(30) {
		in.Sess.Auth = Pick(r, []*int64{nil, i64(-7200), i64(-600), i64(-1), i64(3), i64(3600)})
		in.Sess.Rat = Pick(r, []*int64{nil, i64(-600), i64(0), i64(0)})
	}
	if r.Chance(4) {
		in.Sess.OIDC = false
	}
	if r.Chance(4) {
		in.Sess.Subject = ""
	}
}

// a request meant to pass most checks of the chosen registration
func c13GenStructured(r *RNG) *c13Input {
	in := &c13Input{ClientID: "c13", Kind: "structured"}
	in.MinRaw = Pick(r, []int{0, 0, 4, 8, 12})
	in.Scope = Pick(r, []string{"wildcard", "wildcard", "wildcard", "exact", "hierarchic"})
	min := c13EffMin(in.MinRaw)
	c := c13GenClient(r)
	in.Client = c
	add := func(k, v string) { in.Params = append(in.Params, [2]string{k, v}) }
	add("client_id", "c13")
	// response_type: a registered combination, permuted / duplicated / re-cased / extended, or a free multiset
	regs := c.RTypes
	if len(regs) == 0 {
		regs = []string{"code"}
	}
	var rts []string
	if r.Chance(88) {
		rts = strings.Fields(regs[r.Intn(len(regs))])
		rts = c13Shuffle(r, rts)
		switch r.Intn(24) {
		case 0:
			if len(rts) > 0 {
				rts = append(rts, rts[0])
			}
		case 1:
			rts = append(rts, "zzz")
		case 2:
			if len(rts) > 0 {
				rts[0] = strings.ToUpper(rts[0])
			}
		case 3:
			if len(rts) > 1 {
				rts = rts[1:]
			}
		}
	} else {
		n := 1 + r.Intn(3)
		for i := 0; i < n; i++ {
			rts = append(rts, Pick(r, []string{"code", "token", "id_token"}))
		}
	}
	sep := " "
	if r.Chance(6) {
		sep = "  "
	}
	add("response_type", strings.Join(rts, sep))
	// response_mode: mostly one the client may use
	switch r.Intn(20) {
	case 0, 1, 2, 3, 4, 5, 6, 7, 8:
	case 9, 10:
		add("response_mode", "fragment")
	case 11:
		add("response_mode", "query")
	case 12, 13:
		add("response_mode", "form_post")
	case 14:
		add("response_mode", Pick(r, []string{"QUERY", "web_message", "fragment "}))
	default:
		if len(c.RModes) > 0 {
			add("response_mode", c.RModes[r.Intn(len(c.RModes))])
		}
	}
	// scope
	scopes := []string{}
	if r.Chance(65) {
		scopes = append(scopes, "openid")
	}
	scopes = append(scopes, c13Subset(r, []string{"profile", "offline"}, 35)...)
	if r.Chance(12) {
		scopes = append(scopes, "photos.read")
	}
	if r.Chance(3) {
		scopes = append(scopes, "admin")
	}
	if r.Chance(4) && len(scopes) > 0 && scopes[0] == "openid" {
		scopes[0] = "OPENID"
	}
	if len(scopes) > 0 {
		add("scope", strings.Join(scopes, " "))
	}
	// redirect_uri
	switch r.Intn(20) {
	case 0, 1:
	case 2:
		add("redirect_uri", Pick(r, []string{"https://evil.example/cb", "https://app.example/cb#frag", "http://127.0.0.1:8765/cb", "https://app.example/cb/"}))
	default:
		add("redirect_uri", c.Redirects[r.Intn(len(c.Redirects))])
	}
	add("state", c13AroundMin(r, min, "st"))
	if r.Chance(75) {
		add("nonce", c13AroundMin(r, min, "no"))
	}
	if r.Chance(30) {
		add("prompt", Pick(r, []string{"none", "login", "consent", "none login", "login consent", "select_account", "bogus", " none "}))
	}
	if r.Chance(22) {
		add("max_age", Pick(r, []string{"0", "300", "600", "3600", "-5", "abc", "+60", "7200"}))
	}
	if r.Chance(2) {
		add("registration", "{}")
	}
	// granted scopes: usually what was asked for
	in.Granted = append([]string{}, scopes...)
	switch r.Intn(12) {
	case 0:
		in.Granted = []string{}
	case 1:
		in.Granted = append(in.Granted, "openid")
	case 2:
		g := []string{}
		for _, s := range in.Granted {
			if strings.ToLower(s) != "openid" {
				g = append(g, s)
			}
		}
		in.Granted = g
	}
	c13GenSession(r, in)
	// request object
	if c.OIDC && r.Chance(40) || r.Chance(4) {
		in.RO = c13GenRO(r, c, min, r.Chance(30))
		in.FetchOK = true
		if r.Chance(70) {
			add("request", "<RO>")
		} else {
			uri := Pick(r, []string{"https://rp.example/ro/1", "https://rp.example/ro/1", "https://rp.example/ro/2", "https://rp.example/ro/3"})
			if len(c.ReqURIs) > 0 && r.Chance(60) {
				uri = c.ReqURIs[r.Intn(len(c.ReqURIs))]
				// near misses of a registered value: extensions, truncations, case, trailing slash
				if r.Chance(30) {
					switch r.Intn(5) {
					case 0:
						uri += Pick(r, []string{"0", ".old", "-staging", "/../debug", "?version=2", "/"})
					case 1:
						uri = uri[:len(uri)-1]
					case 2:
						uri = strings.ToUpper(uri[:8]) + uri[8:]
					case 3:
						uri = strings.Replace(uri, "https://", "http://", 1)
					default:
						uri = strings.Replace(uri, "rp.example", "rp.example.evil.example", 1)
					}
				}
			}
			add("request_uri", uri)
			in.FetchOK = r.Chance(88)
		}
		// honoured objects usually carry what a grant from the query alone would
		if v, ok := in.RO.Claims["scope"].(string); ok && r.Chance(60) {
			in.Granted = strings.Fields("openid " + v)
		}
	}
	return in
}

// requests built to be wrong in one particular way
func c13GenAdversarial(r *RNG) *c13Input {
	in := c13GenStructured(r)
	in.Kind = "adversarial"
	min := c13EffMin(in.MinRaw)
	set := func(k, v string) {
		for i := range in.Params {
			if in.Params[i][0] == k {
				in.Params[i][1] = v
				return
			}
		}
		in.Params = append(in.Params, [2]string{k, v})
	}
	del := func(k string) {
		out := in.Params[:0]
		for _, p := range in.Params {
			if p[0] != k {
				out = append(out, p)
			}
		}
		in.Params = out
	}
	switch r.Intn(16) {
	case 0:
		set("client_id", "nobody")
	case 1:
		in.Client = nil
	case 2:
		del("response_type")
	case 3:
		set("response_type", Pick(r, []string{"", "  ", "code\ttoken", "\tcode", "code,token", "none"}))
	case 4: // a second, different value of a parameter: the first one counts
		in.Params = append(in.Params, [2]string{"state", c13StrOfLen(min + 5)}, [2]string{"response_type", "token"}, [2]string{"redirect_uri", "https://evil.example/cb"})
	case 5:
		in.RO = c13GenRO(r, in.Client, min, true)
		del("request_uri")
		set("request", "<RO>")
		set("request_uri", "https://rp.example/ro/1")
	case 6:
		in.Client.OIDC = false
		in.Client.HasJWKS = false
		in.Client.Keys = nil
		in.Client.ReqURIs = nil
		in.Client.ROAlg = ""
		if in.RO == nil {
			in.RO = c13GenRO(r, in.Client, min, false)
			set("request", "<RO>")
		}
		set("scope", "openid")
	case 7:
		del("request")
		set("request_uri", "urn:ietf:params:oauth:request_uri:abcdef")
	case 8:
		if in.RO == nil {
			in.RO = c13GenRO(r, in.Client, min, true)
		}
		del("request")
		set("request_uri", "https://rp.example/unregistered")
		in.FetchOK = true
	case 9:
		set("state", "")
	case 10:
		del("state")
		del("nonce")
	case 11:
		in.Granted = []string{"openid", "profile"}
		del("redirect_uri")
	case 12:
		in.Sess.OIDC = false
	case 13:
		set("scope", "openid")
		del("redirect_uri")
	case 14:
		if in.RO == nil {
			in.RO = c13GenRO(r, in.Client, min, false)
		}
		in.RO.Alg = "none"
		in.RO.Signer = 0
		in.RO.Strip = false
		in.RO.Claims["state"] = c13StrOfLen(min + 3)
		in.RO.Claims["response_type"] = "token"
		del("request_uri")
		set("request", "<RO>")
		set("scope", "openid")
	case 15:
		set("grant_type", "refresh_token")
		set("prompt", "login")
	}
	if in.Client != nil && in.RO != nil && !in.Client.OIDC && in.Client.ROAlg != "" {
		in.Client.ROAlg = ""
	}
	return in
}

// the bounded product: registration x grants x every response_type multiset of size <= 3 with every
// ordering x response_mode x openid x nonce x state
func c13Product(out *Out, full bool) {
	i64 := func(v int64) *int64 { return &v }
	var multis [][]string
	base := []string{"code", "token", "id_token"}
	for _, a := range base {
		multis = append(multis, []string{a})
		for _, b := range base {
			multis = append(multis, []string{a, b})
			for _, c := range base {
				multis = append(multis, []string{a, b, c})
			}
		}
	}
	regs := [][]string{c13Combos}
	if full {
		for _, c := range c13Combos {
			regs = append(regs, []string{c})
		}
	}
	grants := [][]string{{"authorization_code", "implicit"}, {"authorization_code"}, {"implicit"}, {"refresh_token"}}
	for ri, reg := range regs {
		nonces := []string{"nonce-0123456789"}
		states := []string{"state-0123456789"}
		if full && ri == 0 {
			nonces = []string{"", "short", "nonce-0123456789"}
			states = []string{"short", "state-0123456789"}
		}
		for _, g := range grants {
			for _, m := range multis {
				for _, mode := range []string{"", "query", "fragment", "form_post"} {
					for _, oidc := range []bool{true, false} {
						for _, nonce := range nonces {
							for _, state := range states {
								in := &c13Input{ClientID: "c13", Kind: "product", MinRaw: 8, Scope: "wildcard",
									Client: &c13Client{Grants: g, RTypes: reg, Scopes: []string{"openid", "profile"},
										Redirects: []string{"https://app.example/cb"}, RMIface: true, RModes: []string{"query", "fragment", "form_post"}},
									Sess: c13Sess{OIDC: true, Subject: "alice", Auth: i64(0), Rat: i64(0)}}
								in.Params = [][2]string{{"client_id", "c13"}, {"response_type", strings.Join(m, " ")}, {"redirect_uri", "https://app.example/cb"}, {"state", state}}
								if mode != "" {
									in.Params = append(in.Params, [2]string{"response_mode", mode})
								}
								if nonce != "" {
									in.Params = append(in.Params, [2]string{"nonce", nonce})
								}
								if oidc {
									in.Params = append(in.Params, [2]string{"scope", "openid profile"})
									in.Granted = []string{"openid", "profile"}
								} else {
									in.Params = append(in.Params, [2]string{"scope", "profile"})
									in.Granted = []string{"profile"}
								}
								c13Emit(out, in)
							}
						}
					}
				}
			}
		}
	}
}

var c13EmitCount int

// every third request of a registered client whose client_id parameter names it is also sent, unchanged, to the
// pushed-authorization endpoint by that client; when it carries a request object, every other twin's object gets a
// request_uri claim (a pushed request must not contain one, in the form or in the object)
func c13PushTwin(out *Out, in *c13Input) {
	c13EmitCount++
	if in.Push || in.Client == nil || c13EmitCount%3 != 0 {
		return
	}
	id := ""
	for _, p := range in.Params {
		if p[0] == "client_id" {
			id = p[1]
			break
		}
	}
	if id != in.ClientID {
		return
	}
	tw := *in
	tw.Push = true
	tw.Kind = in.Kind + "+push"
	tw.Obs = nil
	if in.RO != nil && !in.RO.Malformed && c13EmitCount%2 == 0 {
		ro := *in.RO
		ro.Claims = map[string]any{}
		for k, v := range in.RO.Claims {
			ro.Claims[k] = v
		}
		ro.Claims["request_uri"] = "https://rp.example/ro/1"
		tw.RO = &ro
	}
	c := c13Exec(&tw)
	out.Add(c)
	out.Count("stream:" + tw.Kind)
	if o := c.Replay.(c13Input).Obs; o.ReqErr != "" {
		out.Count("push:" + o.ReqErr)
	} else {
		out.Count("push:accepted")
	}
}

func c13Emit(out *Out, in *c13Input) {
	c := c13Exec(in)
	out.Add(c)
	defer c13PushTwin(out, in)
	o := c.Replay.(c13Input).Obs
	out.Count("stream:" + in.Kind)
	switch {
	case o.ReqErr != "":
		out.Count("request:" + o.ReqErr)
	case o.RespErr != "":
		out.Count("response:" + o.RespErr)
	default:
		out.Count("issued:" + strings.Join(o.Keys, "+"))
	}
	switch {
	case len(o.Q) > 0:
		out.Count("written:query")
	case len(o.F) > 0:
		out.Count("written:fragment")
	case len(o.B) > 0:
		out.Count("written:form_post")
	default:
		out.Count("written:json")
	}
	if in.RO != nil {
		changed := false
		urlv := map[string]string{}
		for i := len(in.Params) - 1; i >= 0; i-- {
			urlv[in.Params[i][0]] = in.Params[i][1]
		}
		for i, k := range c13Watched {
			if i < len(o.Eff) && o.Eff[i] != urlv[k] {
				changed = true
			}
		}
		if changed {
			out.Count("request_object:honoured")
		} else {
			out.Count("request_object:not-honoured-or-no-effect")
		}
	}
	if in.Client != nil {
		implicit := false
		for _, g := range in.Client.Grants {
			if strings.EqualFold(g, "implicit") {
				implicit = true
			}
		}
		for _, k := range o.Keys {
			if k == "id_token" && !implicit {
				out.Count("A9:id_token-to-client-without-implicit-grant(hybrid)")
			}
		}
	}
	switch o.Redeem {
	case 1:
		out.Count("redeem:unauthorized_client")
	case 2:
		out.Count("redeem:other-error")
	case 3:
		out.Count("redeem:tokens")
	}
}

// the authorize endpoint handlers compose.ComposeAllEnabled really wires, by Go type and in order
func c13HandlerOrder() Case {
	conf := &fosite.Config{GlobalSecret: []byte("0123456789abcdef0123456789abcdef-global")}
	compose.ComposeAllEnabled(conf, storage.NewMemoryStore(), theKey())
	names := []string{}
	for _, h := range conf.GetAuthorizeEndpointHandlers(context.Background()) {
		names = append(names, fmt.Sprintf("%T", h))
	}
	return Case{Coq: "IOrder " + QL(names), Replay: c13Input{Kind: "handler-order", Params: [][2]string{}}, NonTrivial: true, Key: "handler-order"}
}

func init() { Register("C13", runC13) }

func runC13(t *testing.T, e Env) {
	out := NewOut(e.Out, "Cases.CasesC13", "c13item", "check_item", 200)
	if e.Replay != nil {
		var in c13Input
		if err := json.Unmarshal(e.Replay, &in); err != nil {
			t.Fatal(err)
		}
		in.Obs = nil
		if in.Kind == "handler-order" {
			out.Add(c13HandlerOrder())
			if err := out.Flush("replay"); err != nil {
				t.Fatal(err)
			}
			return
		}
		// JSON numbers of claims come back as float64: restore integers so that the object is signed as before
		if in.RO != nil {
			for k, v := range in.RO.Claims {
				if f, ok := v.(float64); ok && f == float64(int64(f)) {
					in.RO.Claims[k] = int64(f)
				}
			}
		}
		c13Emit(out, &in)
		if err := out.Flush("replay"); err != nil {
			t.Fatal(err)
		}
		return
	}
	r := NewRNG(e.Seed)
	nStruct, nAdv := 2600, 900
	if e.Tier == "thorough" {
		nStruct, nAdv = 26000, 9000
	}
	out.Add(c13HandlerOrder())
	out.Count("handler-order")
	c13Product(out, e.Tier == "thorough")
	for i := 0; i < nStruct; i++ {
		c13Emit(out, c13GenStructured(r))
	}
	for i := 0; i < nAdv; i++ {
		c13Emit(out, c13GenAdversarial(r))
	}
	out.Notes["product_block"] = "registration (all seven combinations; thorough: also each single one) x grants {ac+implicit, ac, implicit, refresh} x every response_type multiset of size <= 3 over {code, token, id_token} in every order x response_mode {default, query, fragment, form_post} x scope with/without openid (thorough: for the full registration also x nonce {absent, short, ok} x state {short, ok})"
	if err := out.Flush("product block + seeded structured stream (registered combination permuted / duplicated / re-cased, lengths around MinParameterEntropy, request objects signed by registered / foreign / no key) + adversarial stream (one defect per request). non-trivial = the client exists, so the validation pipeline is entered; distinct by the complete input"); err != nil {
		t.Fatal(err)
	}
}
