package hx

// splitmix64: every random choice of a run derives from one state seeded by VERIF_SEED.
type RNG struct{ s uint64 }

func NewRNG(seed uint64) *RNG { return &RNG{s: seed*0x9E3779B97F4A7C15 + 0x1234567} }

func (r *RNG) Next() uint64 {
	r.s += 0x9E3779B97F4A7C15
	z := r.s
	z = (z ^ (z >> 30)) * 0xBF58476D1CE4E5B9
	z = (z ^ (z >> 27)) * 0x94D049BB133111EB
	return z ^ (z >> 31)
}
func (r *RNG) Intn(n int) int {
	if n <= 0 {
		return 0
	}
	return int(r.Next() % uint64(n))
}
func (r *RNG) Bool() bool          { return r.Next()&1 == 1 }
func (r *RNG) Chance(pct int) bool { return r.Intn(100) < pct }
func Pick[T any](r *RNG, l []T) T  { return l[r.Intn(len(l))] }
func (r *RNG) Fork() *RNG          { return &RNG{s: r.Next()} }
