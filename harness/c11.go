package hx

// C11 — the authorization endpoint never redirects to an unregistered URI.
//
// The harness generates registered redirect-URI sets and near-miss requested URIs, describes every
// URI string with a record computed by the Go standard library (net/url, net) and govalidator —
// independently of fosite —, runs the real fosite functions / endpoints and emits one Coq case per
// run: inputs + the implementation's projected observation.  Model and monitor live in
// coq/Model/Redirect.v and coq/Cases/CasesC11.v.

import (
	"context"
	"encoding/json"
	"fmt"
	"html"
	"html/template"
	"net"
	"net/http"
	"net/http/httptest"
	"net/url"
	"regexp"
	"sort"
	"strconv"
	"strings"
	"testing"

	"github.com/asaskevich/govalidator"

	"github.com/ory/fosite"
	"github.com/ory/fosite/compose"
	"github.com/ory/fosite/handler/openid"
	"github.com/ory/fosite/storage"
	"github.com/ory/fosite/token/jwt"
)

// ---------------------------------------------------------------- URI records (Go stdlib only)

type c11Rec struct {
	Raw      string
	Ok       bool
	Scheme   string
	Hostname string
	Path     string
	RawQ     string
	FQ       bool
	Frag     string
	Loop     bool
	ReqURL   bool
	Base     string
	Str      string
	Q        [][2]string
	Tmpl     *string
	Re       *c11Rec
}

// what html/template makes of a URL inside action="..." (the pipeline of DefaultFormPostTemplate)
var (
	c11Tmpl     = template.Must(template.New("c11").Parse(`<form method="post" action="{{ . }}">`))
	c11TmplMemo = map[string]string{}
)

func tmplAction(s string) string {
	if a, ok := c11TmplMemo[s]; ok {
		return a
	}
	var b strings.Builder
	_ = c11Tmpl.Execute(&b, s)
	a := ""
	if m := reAction.FindStringSubmatch(b.String()); m != nil {
		a = html.UnescapeString(m[1])
	}
	c11TmplMemo[s] = a
	return a
}

func flatten(v url.Values) [][2]string {
	keys := make([]string, 0, len(v))
	for k := range v {
		keys = append(keys, k)
	}
	sort.Strings(keys)
	var out [][2]string
	for _, k := range keys {
		for _, x := range v[k] {
			out = append(out, [2]string{k, x})
		}
	}
	return out
}

func c11RecOf(raw string, withRe bool) c11Rec {
	u, err := url.Parse(raw)
	if err != nil {
		return c11Rec{Raw: raw, Str: raw}
	}
	r := c11Rec{Raw: raw, Ok: true, Scheme: u.Scheme, Hostname: u.Hostname(), Path: u.Path, RawQ: u.RawQuery,
		FQ: u.ForceQuery, Frag: u.Fragment}
	r.Loop = net.ParseIP(u.Hostname()).IsLoopback()
	r.Str = u.String()
	r.ReqURL = govalidator.IsRequestURL(r.Str)
	cp := *u
	cp.RawQuery, cp.ForceQuery, cp.Fragment, cp.RawFragment = "", false, "", ""
	r.Base = cp.String()
	r.Q = flatten(u.Query())
	nf := r.Base
	if u.ForceQuery || u.RawQuery != "" {
		nf += "?" + u.RawQuery
	}
	if a := tmplAction(nf); a != nf {
		r.Tmpl = &a
	}
	if withRe {
		r2 := c11RecOf(r.Str, false)
		same := r2.Ok && r2.Scheme == r.Scheme && r2.Hostname == r.Hostname && r2.Path == r.Path && r2.RawQ == r.RawQ &&
			r2.FQ == r.FQ && r2.Frag == r.Frag && r2.Loop == r.Loop && r2.ReqURL == r.ReqURL && r2.Base == r.Base &&
			r2.Str == r.Str && fmt.Sprint(r2.Q) == fmt.Sprint(r.Q) && (r2.Tmpl == nil) == (r.Tmpl == nil) && (r.Tmpl == nil || *r.Tmpl == *r2.Tmpl)
		if !same {
			r.Re = &r2
		}
	}
	return r
}

func pairsCoq(p [][2]string) string {
	if len(p) == 0 {
		return "[]"
	}
	parts := make([]string, len(p))
	for i, kv := range p {
		parts[i] = "(" + Q(kv[0]) + "," + Q(kv[1]) + ")"
	}
	return "[" + strings.Join(parts, ";") + "]"
}

func (r c11Rec) Coq() string {
	str := "None"
	if r.Str != r.Raw {
		str = "(Some " + Q(r.Str) + ")"
	}
	tm := "None"
	if r.Tmpl != nil {
		tm = "(Some " + Q(*r.Tmpl) + ")"
	}
	re := "None"
	if r.Re != nil {
		re = "(Some " + r.Re.Coq() + ")"
	}
	return fmt.Sprintf("(U %s %s %s %s %s %s %s %s %s %s %s %s %s %s %s)", Q(r.Raw), B(r.Ok), Q(r.Scheme), Q(r.Hostname),
		Q(r.Path), Q(r.RawQ), B(r.FQ), Q(r.Frag), B(r.Loop), B(r.ReqURL), Q(r.Base), str, pairsCoq(r.Q), tm, re)
}

func recsCoq(raws []string) string {
	parts := make([]string, len(raws))
	for i, s := range raws {
		parts[i] = c11RecOf(s, true).Coq()
	}
	return "[" + strings.Join(parts, ";") + "]"
}

// values are projected: long texts (descriptions, codes, tokens) are cut to a short stable form,
// identically on the expected parameters and on what was found in the response
func shortv(v string) string {
	if len(v) <= 14 {
		return v
	}
	return v[:6] + "~" + strconv.Itoa(len(v))
}

func shortPairs(p [][2]string) [][2]string {
	out := make([][2]string, len(p))
	for i, kv := range p {
		out[i] = [2]string{kv[0], shortv(kv[1])}
	}
	return out
}

// ---------------------------------------------------------------- observation of a written response

type c11Obs struct {
	Kind   string      `json:"kind"` // redirect form direct other panic
	Status int         `json:"status,omitempty"`
	Loc    string      `json:"location,omitempty"`
	Base   string      `json:"base,omitempty"`
	HasQ   bool        `json:"has_query,omitempty"`
	RawQ   string      `json:"raw_query,omitempty"`
	QP     [][2]string `json:"query_pairs,omitempty"`
	HasF   bool        `json:"has_fragment,omitempty"`
	FP     [][2]string `json:"fragment_pairs,omitempty"`
	Action string      `json:"action,omitempty"`
	Inputs [][2]string `json:"inputs,omitempty"`
}

var (
	reAction = regexp.MustCompile(`<form method="post" action="([^"]*)"`)
	reInput  = regexp.MustCompile(`<input type="hidden" name="([^"]*)" value="([^"]*)"/>`)
)

func parsePairs(s string) [][2]string {
	v, _ := url.ParseQuery(s)
	return shortPairs(flatten(v))
}

func c11Observe(rw *httptest.ResponseRecorder) c11Obs {
	h := rw.Header()
	if locs, ok := h["Location"]; ok {
		loc := ""
		if len(locs) > 0 {
			loc = locs[0]
		}
		o := c11Obs{Kind: "redirect", Status: rw.Code, Loc: loc}
		pre := loc
		if i := strings.IndexByte(loc, '#'); i >= 0 {
			o.HasF = true
			o.FP = parsePairs(loc[i+1:])
			pre = loc[:i]
		}
		o.Base = pre
		if i := strings.IndexByte(pre, '?'); i >= 0 {
			o.HasQ = true
			o.RawQ = pre[i+1:]
			o.QP = parsePairs(o.RawQ)
			o.Base = pre[:i]
		}
		return o
	}
	body := rw.Body.String()
	ct := h.Get("Content-Type")
	if strings.HasPrefix(ct, "text/html") {
		if m := reAction.FindStringSubmatch(body); m != nil {
			o := c11Obs{Kind: "form", Status: rw.Code, Action: html.UnescapeString(m[1])}
			var in [][2]string
			for _, x := range reInput.FindAllStringSubmatch(body, -1) {
				in = append(in, [2]string{html.UnescapeString(x[1]), html.UnescapeString(x[2])})
			}
			sort.SliceStable(in, func(i, j int) bool { return in[i][0] < in[j][0] })
			o.Inputs = shortPairs(in)
			return o
		}
	}
	if strings.HasPrefix(ct, "application/json") {
		var m map[string]any
		if json.Unmarshal([]byte(body), &m) == nil {
			if _, ok := m["error"]; ok {
				return c11Obs{Kind: "direct", Status: rw.Code}
			}
		}
	}
	return c11Obs{Kind: "other", Status: rw.Code}
}

func (o c11Obs) Coq() string {
	switch o.Kind {
	case "redirect":
		return fmt.Sprintf("(ORedirect %s %s %s %s %s %s)", Q(o.Base), B(o.HasQ), Q(o.RawQ), pairsCoq(o.QP), B(o.HasF), pairsCoq(o.FP))
	case "form":
		return fmt.Sprintf("(OForm %s %s)", Q(o.Action), pairsCoq(o.Inputs))
	case "direct":
		return "ODirect"
	case "panic":
		return "OPanic"
	}
	return "OOther"
}

// ---------------------------------------------------------------- providers

type c11World struct {
	store *storage.MemoryStore
	prov  fosite.OAuth2Provider
}

var c11Worlds = map[string]*c11World{}

func c11Provider(checker string) *c11World {
	if w, ok := c11Worlds[checker]; ok {
		return w
	}
	cfg := &fosite.Config{GlobalSecret: []byte("0123456789abcdef0123456789abcdef-c11")}
	switch checker {
	case "strict":
		cfg.RedirectSecureChecker = fosite.IsRedirectURISecureStrict
	case "any":
		cfg.RedirectSecureChecker = func(context.Context, *url.URL) bool { return true }
	}
	store := storage.NewMemoryStore()
	w := &c11World{store: store, prov: compose.ComposeAllEnabled(cfg, store, theKey())}
	c11Worlds[checker] = w
	return w
}

func checkerCoq(c string) string {
	switch c {
	case "strict":
		return "CkStrict"
	case "any":
		return "CkAny"
	}
	return "CkDefault"
}

func modeCoq(m string) string {
	switch m {
	case "":
		return "MDefault"
	case "query":
		return "MQuery"
	case "fragment":
		return "MFragment"
	case "form_post":
		return "MFormPost"
	}
	return "?"
}

const c11Secret = "c11-client-secret"

func c11Client(id string, regs []string, modes []string, modeClient bool) fosite.Client {
	dc := &fosite.DefaultClient{ID: id, Secret: hashSecret(c11Secret), RedirectURIs: regs,
		ResponseTypes: []string{"code", "token"}, GrantTypes: []string{"authorization_code", "implicit"},
		Scopes: []string{"a", "b", "openid"}}
	if !modeClient {
		return dc
	}
	ms := make([]fosite.ResponseModeType, len(modes))
	for i, m := range modes {
		ms[i] = fosite.ResponseModeType(m)
	}
	return &fosite.DefaultResponseModeClient{DefaultClient: dc, ResponseModes: ms}
}

func errParams(err error, state string) [][2]string {
	v := fosite.ErrorToRFC6749Error(err).WithLegacyFormat(false).WithExposeDebug(false).ToValues()
	v.Set("state", state)
	return shortPairs(flatten(v))
}

func safely(f func()) (panicked bool) {
	defer func() {
		if r := recover(); r != nil {
			panicked = true
		}
	}()
	f()
	return false
}

// ---------------------------------------------------------------- replay record

type c11Replay struct {
	Kind        string   `json:"kind"` // match valid secure reqvalid werr e2e par
	URI         string   `json:"redirect_uri"`
	Regs        []string `json:"registered"`
	NoClient    bool     `json:"no_client,omitempty"` // werr/reqvalid: Client nil; e2e/par: unknown client_id
	NilURI      bool     `json:"nil_uri,omitempty"`   // werr/reqvalid: RedirectURI nil
	Mode        string   `json:"response_mode,omitempty"`
	ModeClient  bool     `json:"mode_client,omitempty"`
	ClientModes []string `json:"client_modes,omitempty"`
	OpenID      bool     `json:"openid,omitempty"`
	RType       string   `json:"response_type,omitempty"`
	Fail        string   `json:"fail,omitempty"` // none pre post_early post_late deny
	Checker     string   `json:"checker,omitempty"`
	ErrName     string   `json:"error,omitempty"`
	State       string   `json:"state,omitempty"`
	Impl        any      `json:"impl"`
}

// ---------------------------------------------------------------- function-level cases

// accepted loopback matches whose strings differ from every registration in more than the port
// (recorded in the evidence as observations; the property's wording allows them)
var c11LoopObs = map[string]int{}

func c11NoteLoopback(raw string, regs []string, u *url.URL) {
	for _, b := range regs {
		if b == raw {
			return
		}
	}
	if u.User != nil {
		c11LoopObs["accepted loopback URI carries userinfo"]++
	}
	for _, b := range regs {
		bu, err := url.Parse(b)
		if err != nil || bu.Hostname() != u.Hostname() || bu.Path != u.Path || bu.RawQuery != u.RawQuery {
			continue
		}
		if bu.Scheme != "http" {
			c11LoopObs["accepted http loopback URI matched a registration with scheme "+bu.Scheme]++
		}
		if bu.EscapedPath() != u.EscapedPath() {
			c11LoopObs["accepted loopback URI differs from the registration in path escaping (decoded paths equal)"]++
		}
		return
	}
}

func c11MatchCase(raw string, regs []string) Case {
	cl := &fosite.DefaultClient{ID: "m", RedirectURIs: regs}
	u, err := fosite.MatchRedirectURIWithClientRedirectURIs(raw, cl)
	if err == nil && u != nil && raw != "" {
		c11NoteLoopback(raw, regs, u)
	}
	impl := "None"
	var implJ any
	if err == nil && u != nil {
		s := u.String()
		impl = fmt.Sprintf("(Some (RR %s %s %s))", Q(s), B(govalidator.IsRequestURL(s)), Q(u.Fragment))
		implJ = map[string]any{"url": s, "fragment": u.Fragment}
	}
	req := c11RecOf(raw, true)
	nt := err == nil || raw == ""
	if req.Ok {
		for _, b := range regs {
			rb := c11RecOf(b, false)
			if rb.Ok && (rb.Hostname == req.Hostname || (rb.Path == req.Path && rb.Path != "") || strings.EqualFold(b, raw)) {
				nt = true
			}
		}
	}
	return Case{
		Coq:        fmt.Sprintf("KMatch %s %s %s", req.Coq(), recsCoq(regs), impl),
		Replay:     c11Replay{Kind: "match", URI: raw, Regs: regs, Impl: implJ},
		NonTrivial: nt,
		Key:        "m|" + raw + "|" + strings.Join(regs, "|"),
	}
}

func c11ValidCase(raw string) (Case, bool) {
	u, err := url.Parse(raw)
	if err != nil {
		return Case{}, false
	}
	impl := fosite.IsValidRedirectURI(u)
	return Case{
		Coq:        fmt.Sprintf("KValid %s %s", c11RecOf(raw, false).Coq(), B(impl)),
		Replay:     c11Replay{Kind: "valid", URI: raw, Impl: impl},
		NonTrivial: true,
		Key:        "v|" + raw,
	}, true
}

func c11SecureCase(raw string) (Case, bool) {
	u, err := url.Parse(raw)
	if err != nil {
		return Case{}, false
	}
	ctx := context.Background()
	a, b, c := fosite.IsRedirectURISecure(ctx, u), fosite.IsRedirectURISecureStrict(ctx, u), fosite.IsLocalhost(u)
	return Case{
		Coq:        fmt.Sprintf("KSecure %s %s %s %s", c11RecOf(raw, false).Coq(), B(a), B(b), B(c)),
		Replay:     c11Replay{Kind: "secure", URI: raw, Impl: []bool{a, b, c}},
		NonTrivial: u.Scheme == "http" || u.Scheme == "https",
		Key:        "s|" + raw,
	}, true
}

// requester states built by hand: RedirectURI = nil | url.Parse(raw); Client = nil | client(regs)
func c11State(rp *c11Replay) (*fosite.AuthorizeRequest, string, bool) {
	ar := fosite.NewAuthorizeRequest()
	ru := "None"
	if !rp.NilURI {
		u, err := url.Parse(rp.URI)
		if err != nil {
			return nil, "", false
		}
		ar.RedirectURI = u
		ru = "(Some " + c11RecOf(rp.URI, true).Coq() + ")"
	}
	cl := "None"
	if !rp.NoClient {
		ar.Client = &fosite.DefaultClient{ID: "w", RedirectURIs: rp.Regs}
		cl = "(Some " + recsCoq(rp.Regs) + ")"
	}
	ar.State = rp.State
	ar.ResponseMode = fosite.ResponseModeType(rp.Mode)
	return ar, ru + " " + cl, true
}

func c11ReqValidCase(rp c11Replay) (Case, bool) {
	rp.Kind = "reqvalid"
	ar, st, ok := c11State(&rp)
	if !ok {
		return Case{}, false
	}
	impl := ar.IsRedirectURIValid()
	rp.Impl = impl
	return Case{
		Coq:        fmt.Sprintf("KReqValid %s %s", st, B(impl)),
		Replay:     rp,
		NonTrivial: !rp.NilURI && !rp.NoClient,
		Key:        fmt.Sprintf("rv|%v|%v|%s|%s", rp.NilURI, rp.NoClient, rp.URI, strings.Join(rp.Regs, "|")),
	}, true
}

var c11Errors = map[string]error{
	"access_denied":   fosite.ErrAccessDenied,
	"invalid_scope":   fosite.ErrInvalidScope,
	"server_error":    fosite.ErrServerError,
	"invalid_request": fosite.ErrInvalidRequest,
}

func c11WErrCase(rp c11Replay) (Case, bool) {
	rp.Kind = "werr"
	ar, st, ok := c11State(&rp)
	if !ok {
		return Case{}, false
	}
	err := c11Errors[rp.ErrName]
	if err == nil {
		err = fosite.ErrAccessDenied
	}
	params := errParams(err, rp.State)
	w := c11Provider("default")
	rw := httptest.NewRecorder()
	var obs c11Obs
	if safely(func() { w.prov.WriteAuthorizeError(context.Background(), rw, ar, err) }) {
		obs = c11Obs{Kind: "panic"}
	} else {
		obs = c11Observe(rw)
	}
	rp.Impl = obs
	return Case{
		Coq:        fmt.Sprintf("KWErr (AR %s %s) %s %s", st, modeCoq(rp.Mode), pairsCoq(params), obs.Coq()),
		Replay:     rp,
		NonTrivial: !rp.NilURI && !rp.NoClient,
		Key:        fmt.Sprintf("we|%v|%v|%s|%s|%s", rp.NilURI, rp.NoClient, rp.URI, strings.Join(rp.Regs, "|"), rp.Mode),
	}, true
}

// ---------------------------------------------------------------- end to end

var c11Seq int

func (rp *c11Replay) e2eCoq() string {
	cl := "None"
	if !rp.NoClient {
		cl = "(Some " + recsCoq(rp.Regs) + ")"
	}
	mode := "None"
	if m := modeCoq(rp.Mode); m != "?" {
		mode = "(Some " + m + ")"
	}
	allowed := false
	if rp.ModeClient {
		for _, m := range rp.ClientModes {
			if m == rp.Mode {
				allowed = true
			}
		}
	}
	rt := "RCode"
	if rp.RType == "token" {
		rt = "RToken"
	}
	fail := map[string]string{"": "FNone", "none": "FNone", "pre": "FPre", "post_early": "FPostEarly", "post_late": "FPostLate", "deny": "FDeny"}[rp.Fail]
	return fmt.Sprintf("(E2E %s %s %s %s %s %s %s %s)", cl, c11RecOf(rp.URI, true).Coq(), B(rp.OpenID), mode, B(allowed), rt, fail, checkerCoq(rp.Checker))
}

func (rp *c11Replay) form(clientID string) url.Values {
	v := url.Values{}
	v.Set("client_id", clientID)
	v.Set("response_type", rp.RType)
	scope := "a"
	if rp.OpenID {
		scope = "a openid"
	}
	if rp.Fail == "post_early" {
		scope += " not-registered"
	}
	v.Set("scope", scope)
	if rp.Fail == "post_late" {
		v.Set("state", "short")
	} else {
		v.Set("state", "state-0123456789")
	}
	if rp.URI != "" {
		v.Set("redirect_uri", rp.URI)
	}
	if rp.Mode != "" {
		v.Set("response_mode", rp.Mode)
	}
	if rp.Fail == "pre" {
		v.Set("request", "x.y.z")
		v.Set("request_uri", "https://client.example/request.jwt")
	}
	return v
}

func c11Session() *openid.DefaultSession {
	return &openid.DefaultSession{Claims: &jwt.IDTokenClaims{Subject: "peter"}, Headers: &jwt.Headers{}, Subject: "peter"}
}

type c11Written struct {
	Err    bool        `json:"error_written"`
	Name   string      `json:"error,omitempty"`
	Params [][2]string `json:"params"`
	Obs    c11Obs      `json:"observed"`
}

// NewAuthorizeResponse + the matching writer, for a requester that NewAuthorizeRequest accepted
func c11Finish(w *c11World, ar fosite.AuthorizeRequester, deny bool) c11Written {
	ctx := context.Background()
	rw := httptest.NewRecorder()
	var out c11Written
	werr := func(err error) {
		out.Err, out.Name = true, errName(err)
		out.Params = errParams(err, ar.GetState())
		if safely(func() { w.prov.WriteAuthorizeError(ctx, rw, ar, err) }) {
			out.Obs = c11Obs{Kind: "panic"}
		} else {
			out.Obs = c11Observe(rw)
		}
	}
	if deny {
		werr(fosite.ErrAccessDenied)
		return out
	}
	for _, s := range ar.GetRequestedScopes() {
		ar.GrantScope(s)
	}
	resp, err := w.prov.NewAuthorizeResponse(ctx, ar, c11Session())
	if err != nil {
		werr(err)
		return out
	}
	out.Params = shortPairs(flatten(resp.GetParameters()))
	if safely(func() { w.prov.WriteAuthorizeResponse(ctx, rw, ar, resp) }) {
		out.Obs = c11Obs{Kind: "panic"}
	} else {
		out.Obs = c11Observe(rw)
	}
	return out
}

func c11E2ECase(rp c11Replay) Case {
	rp.Kind = "e2e"
	w := c11Provider(rp.Checker)
	c11Seq++
	id := fmt.Sprintf("e2e-%d", c11Seq)
	w.store.Clients[id] = c11Client(id, rp.Regs, rp.ClientModes, rp.ModeClient)
	defer delete(w.store.Clients, id)
	cid := id
	if rp.NoClient {
		cid = "no-such-client"
	}
	r, _ := http.NewRequest("GET", "https://as.example/oauth2/auth?"+rp.form(cid).Encode(), nil)
	ctx := context.Background()
	ar, err := w.prov.NewAuthorizeRequest(ctx, r)
	var out c11Written
	if err != nil {
		rw := httptest.NewRecorder()
		out.Err, out.Name = true, errName(err)
		out.Params = errParams(err, ar.GetState())
		if safely(func() { w.prov.WriteAuthorizeError(ctx, rw, ar, err) }) {
			out.Obs = c11Obs{Kind: "panic"}
		} else {
			out.Obs = c11Observe(rw)
		}
	} else {
		out = c11Finish(w, ar, rp.Fail == "deny")
	}
	rp.Impl = out
	return Case{
		Coq:        fmt.Sprintf("KE2E %s %s %s %s", rp.e2eCoq(), pairsCoq(out.Params), B(out.Err), out.Obs.Coq()),
		Replay:     rp,
		NonTrivial: !rp.NoClient && rp.Fail != "pre" && modeCoq(rp.Mode) != "?",
		Key: fmt.Sprintf("e|%s|%s|%s|%v|%v|%s|%v|%s|%s|%s", rp.URI, strings.Join(rp.Regs, "|"), rp.Mode, rp.ModeClient, rp.ClientModes,
			rp.RType, rp.OpenID, rp.Fail, rp.Checker, out.Obs.Kind),
	}
}

type c11ParOut struct {
	Accepted bool        `json:"accepted"`
	Name     string      `json:"error,omitempty"`
	Follow   *c11Written `json:"follow,omitempty"`
}

func c11ParCase(rp c11Replay) Case {
	rp.Kind = "par"
	w := c11Provider(rp.Checker)
	c11Seq++
	id := fmt.Sprintf("par-%d", c11Seq)
	w.store.Clients[id] = c11Client(id, rp.Regs, rp.ClientModes, rp.ModeClient)
	defer delete(w.store.Clients, id)
	cid := id
	if rp.NoClient {
		cid = "no-such-client"
	}
	ctx := context.Background()
	form := rp.form(cid)
	r, _ := http.NewRequest("POST", "https://as.example/oauth2/par", strings.NewReader(form.Encode()))
	r.Header.Set("Content-Type", "application/x-www-form-urlencoded")
	r.SetBasicAuth(url.QueryEscape(cid), url.QueryEscape(c11Secret))
	var out c11ParOut
	ar, err := w.prov.NewPushedAuthorizeRequest(ctx, r)
	var requestURI string
	if err == nil {
		var resp fosite.PushedAuthorizeResponder
		resp, err = w.prov.NewPushedAuthorizeResponse(ctx, ar, c11Session())
		if err == nil {
			out.Accepted = true
			requestURI = resp.GetRequestURI()
		}
	}
	follow := "None"
	if err != nil {
		out.Name = errName(err)
	} else {
		// continue at the authorization endpoint with the request_uri
		v := url.Values{}
		v.Set("client_id", cid)
		v.Set("request_uri", requestURI)
		r2, _ := http.NewRequest("GET", "https://as.example/oauth2/auth?"+v.Encode(), nil)
		ar2, err2 := w.prov.NewAuthorizeRequest(ctx, r2)
		if err2 == nil {
			fw := c11Finish(w, ar2, false)
			out.Follow = &fw
			follow = fmt.Sprintf("(Some (%s, %s, %s))", pairsCoq(fw.Params), B(fw.Err), fw.Obs.Coq())
		} else {
			out.Name = "follow:" + errName(err2)
			follow = "(Some ([], true, OOther))"
		}
	}
	rp.Impl = out
	return Case{
		Coq:        fmt.Sprintf("KPar %s %s %s", rp.e2eCoq(), B(out.Accepted), follow),
		Replay:     rp,
		NonTrivial: !rp.NoClient && rp.Fail != "pre" && modeCoq(rp.Mode) != "?",
		Key: fmt.Sprintf("p|%s|%s|%s|%v|%v|%s|%v|%s|%s", rp.URI, strings.Join(rp.Regs, "|"), rp.Mode, rp.ModeClient, rp.ClientModes,
			rp.RType, rp.OpenID, rp.Fail, rp.Checker),
	}
}

// ---------------------------------------------------------------- generators

var (
	c11WebHosts  = []string{"app.example.com", "app.example.com:8443", "APP.example.com", "sub.app.example.com", "example.com"}
	c11LoopHosts = []string{"127.0.0.1", "127.0.0.1:8080", "[::1]", "[::1]:3000", "127.0.0.2", "[::ffff:127.0.0.1]", "[0:0:0:0:0:0:0:1]", "127.0.0.1:80"}
	c11LocalHost = []string{"localhost", "localhost:8080", "app.localhost", "app.localhost:9000"}
	c11Paths     = []string{"/cb", "/cb", "/cb/", "", "/", "/oauth/cb", "/a%2Fb", "/a/b", "/cb;v=1", "/CB"}
	c11Queries   = []string{"", "", "", "", "?x=1", "?x=1&y=2", "?", "?state=fixed", "?error=keep", "?x=1&x=2", "?x=%31"}
	c11Custom    = []string{"com.example.app:/cb", "com.example.app://cb/x", "myapp:cb", "urn:ietf:wg:oauth:2.0:oob", "com.example.app:/cb?x=1"}
	c11Invalid   = []string{"/relative", "//host/p", "::bad::", "http://[::1", "", "https://app.example.com/cb#frag", "https://app.example.com/cb#",
		" https://app.example.com/cb", "HTTPS://APP.example.com/cb", "https://app.example.com/c b", "http://127.0.0.1/cb#f", "http://127.0.0.1/c b"}
	c11AltLoop = []string{"127.0.0.1", "[::1]", "localhost", "127.0.0.2", "127.1", "0x7f.0.0.1", "2130706433", "[0:0:0:0:0:0:0:1]",
		"[::ffff:127.0.0.1]", "127.0.0.1.", "0.0.0.0", "[::]", "127.0.0.1.evil.com", "localhost.evil.com", "evil.localhost", "evillocalhost", "127.0.0.01", "[::1%25lo]"}
	c11Adversarial = []string{"https://evil.com/cb", "javascript:alert(1)", "data:text/html,hi", "//evil.com", "/\\evil.com", "http://", "https://",
		"https:///cb", "http://[::1]:namedport/", "http://127.0.0.1:99999/cb", "%zz", "http://a b/", "ht!tp://x", "\xff\xfe", "http://127.0.0.1/cb\x00",
		"http://evil.com/cb", "http://evillocalhost/cb", "http://localhost.evil.com/cb", "http://127.0.0.1.evil.com/cb", "https://app.example.com.evil.com/cb",
		"https://app.example.com@evil.com/cb", "http://127.0.0.1@evil.com/cb", "http://evil.com#@127.0.0.1/cb", "http://evil.com?@127.0.0.1/cb",
		"http://[::1]@evil.com/cb", "https://app.example.com%2Fcb", "https://app.example.com\\@evil.com/cb", "mailto:a@b.c", "cb", "?x=1", "#f", "http:cb", "http:/cb",
		"http://LOCALHOST/cb", "http://localhost./cb", "http://foo.localhost./cb", "http://.localhost/cb", "HTTP://127.0.0.1/cb", "hTTp://localhost/cb"}
)

func c11GenRegistered(r *RNG) string {
	n := r.Intn(100)
	switch {
	case n < 33:
		return "https://" + Pick(r, c11WebHosts) + Pick(r, c11Paths) + Pick(r, c11Queries)
	case n < 63:
		s := "http"
		if r.Chance(12) {
			s = "https"
		}
		return s + "://" + Pick(r, c11LoopHosts) + Pick(r, c11Paths) + Pick(r, c11Queries)
	case n < 73:
		return "http://" + Pick(r, c11LocalHost) + Pick(r, c11Paths) + Pick(r, c11Queries)
	case n < 82:
		return "http://" + Pick(r, c11WebHosts) + Pick(r, c11Paths) + Pick(r, c11Queries)
	case n < 91:
		return Pick(r, c11Custom)
	}
	return Pick(r, c11Invalid)
}

func c11GenRegs(r *RNG) []string {
	k := 1 + r.Intn(4)
	if r.Chance(3) {
		k = 0
	}
	if r.Chance(35) {
		k = 1
	}
	regs := make([]string, k)
	for i := range regs {
		regs[i] = c11GenRegistered(r)
		if i > 0 && r.Chance(25) { // a sibling of an earlier entry
			regs[i] = c11Mutate(r, regs[r.Intn(i)], regs)
		}
	}
	return regs
}

// textual split of scheme://authority rest ; ok=false for other shapes
func splitAuthority(s string) (scheme, auth, rest string, ok bool) {
	i := strings.Index(s, "://")
	if i < 0 {
		return "", "", "", false
	}
	scheme = s[:i]
	t := s[i+3:]
	j := strings.IndexAny(t, "/?#")
	if j < 0 {
		return scheme, t, "", true
	}
	return scheme, t[:j], t[j:], true
}

func hostOnly(auth string) (userinfo, host, port string) {
	if i := strings.LastIndex(auth, "@"); i >= 0 {
		userinfo, auth = auth[:i+1], auth[i+1:]
	}
	if strings.HasPrefix(auth, "[") {
		if j := strings.Index(auth, "]"); j >= 0 {
			return userinfo, auth[:j+1], auth[j+1:]
		}
		return userinfo, auth, ""
	}
	if j := strings.LastIndex(auth, ":"); j >= 0 {
		return userinfo, auth[:j], auth[j:]
	}
	return userinfo, auth, ""
}

func splitRest(rest string) (path, query, frag string) {
	if i := strings.Index(rest, "#"); i >= 0 {
		rest, frag = rest[:i], rest[i:]
	}
	if i := strings.Index(rest, "?"); i >= 0 {
		rest, query = rest[:i], rest[i:]
	}
	return rest, query, frag
}

func c11Mutate(r *RNG, base string, regs []string) string {
	scheme, auth, rest, ok := splitAuthority(base)
	if !ok {
		switch r.Intn(6) {
		case 0:
			return base
		case 1:
			return base + Pick(r, []string{"/", "x", "?x=1", "#f", " ", "/.."})
		case 2:
			return strings.ToUpper(base)
		case 3:
			return strings.Replace(base, ":", "://", 1)
		case 4:
			return ""
		}
		return Pick(r, c11Adversarial)
	}
	ui, host, port := hostOnly(auth)
	path, query, frag := splitRest(rest)
	join := func() string { return scheme + "://" + ui + host + port + path + query + frag }
	switch r.Intn(16) {
	case 0, 1:
		return base
	case 2, 3: // port
		port = Pick(r, []string{"", ":80", ":8080", ":1", ":65535", ":0", ":443", ":08080", ":"})
	case 4: // case
		switch r.Intn(3) {
		case 0:
			scheme = strings.ToUpper(scheme)
		case 1:
			host = strings.ToUpper(host)
		default:
			path = strings.ToUpper(path)
		}
	case 5: // percent-encoding
		switch {
		case len(path) > 1 && r.Chance(50):
			i := 1 + r.Intn(len(path)-1)
			path = path[:i] + fmt.Sprintf("%%%02X", path[i]) + path[i+1:]
		case strings.Contains(path, "%2F"):
			path = strings.Replace(path, "%2F", Pick(r, []string{"/", "%2f", "%252F"}), 1)
		case strings.Count(path, "/") > 1:
			i := strings.LastIndex(path, "/")
			path = path[:i] + "%2F" + path[i+1:]
		default:
			query = strings.Replace(query, "1", "%31", 1)
		}
	case 6: // userinfo
		switch r.Intn(4) {
		case 0:
			ui = "user@"
		case 1:
			ui = "user:pw@"
		case 2:
			ui, host = host+"@", "evil.com"
		default:
			ui = host + port + "@"
			host, port = "evil.com", ""
		}
	case 7: // look-alike host
		switch r.Intn(5) {
		case 0:
			host = host + ".evil.com"
		case 1:
			host = "evil" + host
		case 2:
			host = host + "."
		case 3:
			host = strings.TrimSuffix(strings.TrimPrefix(host, "["), "]")
		default:
			host = "evil.com"
		}
	case 8: // path
		switch r.Intn(8) {
		case 0:
			path += "/"
		case 1:
			path += "/.."
		case 2:
			path += "/x"
		case 3:
			path += "/."
		case 4:
			path = strings.TrimSuffix(path, "/")
		case 5:
			path = "/.." + path
		case 6:
			path = strings.Replace(path, "/", "//", 1)
		default:
			path = ""
		}
	case 9: // query
		switch r.Intn(7) {
		case 0:
			query = "?x=1"
		case 1:
			query = ""
		case 2:
			query = "?"
		case 3:
			if query == "" {
				query = "?z=9"
			} else {
				query += "&z=9"
			}
		case 4:
			query = strings.Replace(query, "=1", "=2", 1)
		case 5:
			if strings.Contains(query, "&") {
				p := strings.SplitN(query[1:], "&", 2)
				query = "?" + p[1] + "&" + p[0]
			} else {
				query += "&"
			}
		default:
			query = "?code=attacker&state=attacker"
		}
	case 10: // fragment
		frag = Pick(r, []string{"#f", "#", "#access_token=x", ""})
	case 11: // scheme
		switch scheme {
		case "http":
			scheme = Pick(r, []string{"https", "HTTP", "custom", "httpx"})
		case "https":
			scheme = Pick(r, []string{"http", "HTTPS", "custom"})
		default:
			scheme = Pick(r, []string{"http", "https"})
		}
	case 12, 13: // other spellings of local hosts
		host = Pick(r, c11AltLoop)
	case 14: // whitespace / control bytes
		switch r.Intn(5) {
		case 0:
			return join() + " "
		case 1:
			return " " + join()
		case 2:
			return join() + "%20"
		case 3:
			return join() + "\t"
		default:
			return join() + "\n"
		}
	default:
		if len(regs) > 0 {
			return regs[r.Intn(len(regs))]
		}
		return ""
	}
	return join()
}

func c11GenRequested(r *RNG, regs []string) string {
	if len(regs) == 0 || r.Chance(12) {
		if r.Chance(30) {
			return ""
		}
		return Pick(r, c11Adversarial)
	}
	base := regs[r.Intn(len(regs))]
	s := c11Mutate(r, base, regs)
	if r.Chance(25) {
		s = c11Mutate(r, s, regs)
	}
	return s
}

// exhaustive component alphabet (thorough tier)
func c11Alphabet() (regs, reqs []string) {
	schemes := []string{"http", "https", "HTTP", "app"}
	hosts := []string{"127.0.0.1", "[::1]", "localhost", "app.example.com", "127.0.0.1.evil.com", "127.0.0.2"}
	ports := []string{"", ":8080"}
	paths := []string{"", "/", "/cb", "/cb/", "/CB", "/c%62"}
	queries := []string{"", "?", "?a=1", "?a=1&b=2"}
	frags := []string{"", "#", "#f"}
	for _, s := range schemes {
		for _, h := range hosts {
			for _, p := range ports {
				for _, pa := range paths {
					for _, q := range queries {
						for _, f := range frags {
							reqs = append(reqs, s+"://"+h+p+pa+q+f)
						}
					}
				}
			}
		}
	}
	for _, s := range []string{"http", "https"} {
		for _, h := range []string{"127.0.0.1", "[::1]", "localhost", "app.example.com"} {
			for _, p := range []string{"", ":8080"} {
				for _, q := range []string{"", "?a=1"} {
					regs = append(regs, s+"://"+h+p+"/cb"+q)
				}
			}
		}
	}
	return
}

func c11GenE2E(r *RNG) c11Replay {
	rp := c11Replay{Regs: c11GenRegs(r)}
	if r.Chance(62) && len(rp.Regs) > 0 {
		rp.URI = rp.Regs[r.Intn(len(rp.Regs))]
	} else {
		rp.URI = c11GenRequested(r, rp.Regs)
	}
	if r.Chance(8) {
		rp.URI = ""
	}
	rp.Mode = Pick(r, []string{"", "", "", "", "", "query", "query", "fragment", "fragment", "form_post", "form_post", "bogus"})
	switch n := r.Intn(10); {
	case n < 7:
		rp.ModeClient, rp.ClientModes = true, []string{"query", "fragment", "form_post"}
	case n < 8:
		rp.ModeClient = true
		for _, m := range []string{"query", "fragment", "form_post"} {
			if r.Bool() {
				rp.ClientModes = append(rp.ClientModes, m)
			}
		}
	}
	rp.RType = "code"
	if r.Chance(35) {
		rp.RType = "token"
	}
	rp.OpenID = r.Chance(25)
	switch n := r.Intn(100); {
	case n < 56:
		rp.Fail = "none"
	case n < 61:
		rp.Fail, rp.OpenID = "pre", true
	case n < 73:
		rp.Fail = "post_early"
	case n < 84:
		rp.Fail = "post_late"
	case n < 96:
		rp.Fail = "deny"
	default:
		rp.Fail, rp.NoClient = "none", true
	}
	rp.Checker = Pick(r, []string{"default", "default", "default", "default", "default", "strict", "any"})
	return rp
}

func c11GenState(r *RNG) c11Replay {
	rp := c11Replay{Regs: c11GenRegs(r)}
	if r.Chance(60) && len(rp.Regs) > 0 {
		rp.URI = rp.Regs[r.Intn(len(rp.Regs))]
	} else {
		rp.URI = c11GenRequested(r, rp.Regs)
	}
	switch n := r.Intn(100); {
	case n < 8:
		rp.NilURI = true
	case n < 12:
		rp.URI = "" // &url.URL{}
	}
	rp.NoClient = r.Chance(6)
	rp.Mode = Pick(r, []string{"", "query", "fragment", "form_post"})
	rp.ErrName = Pick(r, []string{"access_denied", "invalid_scope", "server_error", "invalid_request"})
	rp.State = Pick(r, []string{"", "s", "state-0123456789", "a b&c=d#e"})
	return rp
}

// ---------------------------------------------------------------- driver

func init() { Register("C11", runC11) }

func runC11(t *testing.T, e Env) {
	out := NewOut(e.Out, "Cases.CasesC11", "c11case", "check", 400)
	if e.Replay != nil {
		var rp c11Replay
		if err := json.Unmarshal(e.Replay, &rp); err != nil {
			t.Fatal(err)
		}
		switch rp.Kind {
		case "match":
			out.Add(c11MatchCase(rp.URI, rp.Regs))
		case "valid":
			if c, ok := c11ValidCase(rp.URI); ok {
				out.Add(c)
			}
		case "secure":
			if c, ok := c11SecureCase(rp.URI); ok {
				out.Add(c)
			}
		case "reqvalid":
			if c, ok := c11ReqValidCase(rp); ok {
				out.Add(c)
			}
		case "werr":
			if c, ok := c11WErrCase(rp); ok {
				out.Add(c)
			}
		case "e2e":
			out.Add(c11E2ECase(rp))
		case "par":
			out.Add(c11ParCase(rp))
		default:
			t.Fatalf("unknown replay kind %q", rp.Kind)
		}
		if err := out.Flush("replay"); err != nil {
			t.Fatal(err)
		}
		return
	}
	r := NewRNG(e.Seed)
	nMatch, nFn, nState, nE2E, nPar := 5000, 900, 1500, 3200, 900
	if e.Tier == "thorough" {
		nMatch, nFn, nState, nE2E, nPar = 25000, 6000, 10000, 20000, 6000
	}
	// 1. the matcher: structured near-miss stream + adversarial stream
	for i := 0; i < nMatch; i++ {
		regs := c11GenRegs(r)
		raw := c11GenRequested(r, regs)
		c := c11MatchCase(raw, regs)
		out.Add(c)
		switch {
		case raw == "":
			out.Count("match/empty-requested")
		case strings.Contains(c.Coq, "(Some (RR"):
			out.Count("match/accepted")
		case c.NonTrivial:
			out.Count("match/near-miss-refused")
		default:
			out.Count("match/unrelated-refused")
		}
	}
	// fixed adversarial list against loopback / web registrations
	for _, raw := range c11Adversarial {
		for _, regs := range [][]string{{"http://127.0.0.1/cb"}, {"http://localhost/cb"}, {"https://app.example.com/cb"}, {"http://[::1]/cb", "https://app.example.com/cb"}} {
			out.Add(c11MatchCase(raw, regs))
			out.Count("match/adversarial-list")
		}
	}
	if e.Tier == "thorough" {
		regs, reqs := c11Alphabet()
		for _, b := range regs {
			for _, q := range reqs {
				out.Add(c11MatchCase(q, []string{b}))
				out.Count("match/alphabet")
			}
		}
		out.Notes["alphabet_block"] = fmt.Sprintf("exhaustive product: %d single registrations x %d requested URIs over scheme/host/port/path/query/fragment alphabets", len(regs), len(reqs))
	}
	// 2. IsValidRedirectURI, IsRedirectURISecure(Strict), IsLocalhost
	for i := 0; i < nFn; i++ {
		regs := c11GenRegs(r)
		raw := c11GenRequested(r, regs)
		if i%2 == 0 {
			if c, ok := c11ValidCase(raw); ok {
				out.Add(c)
				out.Count("IsValidRedirectURI")
			}
		} else if c, ok := c11SecureCase(raw); ok {
			out.Add(c)
			out.Count("IsRedirectURISecure+Strict+IsLocalhost")
		}
	}
	for _, h := range append(append([]string{}, c11AltLoop...), "foo.localhost", "localhost", "xlocalhost", ".localhost", "LOCALHOST", "a.b.localhost", "localhost.", "[::1]", "app.example.com") {
		for _, s := range []string{"http", "https", "custom", "HTTP"} {
			if c, ok := c11SecureCase(s + "://" + h + "/cb"); ok {
				out.Add(c)
				out.Count("IsRedirectURISecure+Strict+IsLocalhost")
			}
		}
	}
	// 3. requester states built by hand: IsRedirectURIValid and WriteAuthorizeError
	for i := 0; i < nState; i++ {
		rp := c11GenState(r)
		if i%3 == 0 {
			if c, ok := c11ReqValidCase(rp); ok {
				out.Add(c)
				out.Count("AuthorizeRequest.IsRedirectURIValid")
			}
		} else if c, ok := c11WErrCase(rp); ok {
			out.Add(c)
			out.Count("WriteAuthorizeError(hand-made state)/" + c.Replay.(c11Replay).Impl.(c11Obs).Kind)
		}
	}
	// 4. end to end through NewAuthorizeRequest / NewAuthorizeResponse / the writers
	for i := 0; i < nE2E; i++ {
		rp := c11GenE2E(r)
		c := c11E2ECase(rp)
		out.Add(c)
		w := c.Replay.(c11Replay).Impl.(c11Written)
		k := "success"
		if w.Err {
			k = "error"
		}
		out.Count("e2e/" + k + "/" + w.Obs.Kind)
	}
	// 5. pushed authorization requests and their continuation at the authorization endpoint
	for i := 0; i < nPar; i++ {
		rp := c11GenE2E(r)
		if rp.Fail == "deny" || (rp.Fail != "none" && r.Chance(50)) {
			rp.Fail = "none"
		}
		c := c11ParCase(rp)
		out.Add(c)
		po := c.Replay.(c11Replay).Impl.(c11ParOut)
		switch {
		case !po.Accepted:
			out.Count("par/refused")
		case po.Follow != nil:
			out.Count("par/accepted/follow-" + po.Follow.Obs.Kind)
		default:
			out.Count("par/accepted/follow-failed")
		}
	}
	out.Notes["loopback_observations"] = c11LoopObs
	out.Notes["not_modelled"] = "custom ResponseModeHandler extensions, OpenID request objects, non-default form_post templates"
	if err := out.Flush("requested URIs derived from the registered ones by one or two mutations (port, case, percent-encoding, userinfo, look-alike host, path, query, fragment, scheme, loopback spellings, whitespace) plus an adversarial list; non-trivial = the requested URI parses and shares host or path with a registered one, or was accepted, or is empty (matcher); hand-made states with URI and client; end-to-end runs that reach the redirect validation. distinct by inputs"); err != nil {
		t.Fatal(err)
	}
}
