package hx

// History driver: executes a list of API-level operations on the real library (one provider
// built by compose.ComposeAllEnabled over storage.NewMemoryStore) under the virtual clock of
// testing/synctest, and records one projected observation per step plus the liveness vector of
// every access/refresh token handed out so far.

import (
	"context"
	"crypto/rand"
	"crypto/rsa"
	"crypto/sha256"
	"encoding/base64"
	"encoding/json"
	"fmt"
	"net/http"
	"net/http/httptest"
	"net/url"
	"strconv"
	"strings"
	"sync"
	"testing"
	"testing/synctest"
	"time"

	"golang.org/x/crypto/bcrypt"

	"github.com/ory/fosite"
	"github.com/ory/fosite/compose"
	"github.com/ory/fosite/handler/oauth2"
	"github.com/ory/fosite/handler/openid"
	"github.com/ory/fosite/storage"
	"github.com/ory/fosite/token/jwt"
)

type HConfig struct {
	Scope             string   `json:"scope_strategy"` // exact | hierarchic | wildcard
	AudExact          bool     `json:"aud_exact"`
	RefreshScopes     []string `json:"refresh_scopes"`
	LifeCode          int64    `json:"life_code_ms"`
	LifeAT            int64    `json:"life_at_ms"`
	LifeRT            int64    `json:"life_rt_ms"` // -1 = unlimited
	PkceEnforce       bool     `json:"pkce_enforce"`
	PkceEnforcePublic bool     `json:"pkce_enforce_public"`
	PkcePlain         bool     `json:"pkce_plain"`
	IntrospectRT      bool     `json:"introspect_rt"`
	LifeDev           int64    `json:"life_dev_ms"`
	ParLife           int64    `json:"par_life_ms"`
	ParEnforced       bool     `json:"par_enforced"`
	JWTAccess         bool     `json:"jwt_access,omitempty"` // access tokens are JWTs (compose.NewOAuth2JWTStrategy); monitors only
	ContractStore     bool     `json:"contract_store,omitempty"` // device codes follow the documented "invalidated => request + ErrInvalidatedDeviceCode" contract (cf_dev_contract in the model)
	RawStore          bool     `json:"raw_store,omitempty"` // run on the raw MemoryStore (aliasing included) instead of the by-value adapter
}

type HClient struct {
	Public bool     `json:"public"`
	Grants []string `json:"grants"`
	Scopes []string `json:"scopes"`
	Aud    []string `json:"aud"`
	// per-client lifetime overrides in ms (client_with_custom_token_lifespans.go); nil = the client has no table;
	// keys: ac_at ac_rt cc_at im_at pw_at pw_rt rt_at rt_rt
	Life map[string]int64 `json:"life,omitempty"`
}

var lifeKeys = []string{"ac_at", "ac_rt", "cc_at", "im_at", "pw_at", "pw_rt", "rt_at", "rt_rt"}

func lifeCfg(m map[string]int64) *fosite.ClientLifespanConfig {
	d := func(k string) *time.Duration {
		if v, ok := m[k]; ok {
			x := ms(v)
			return &x
		}
		return nil
	}
	return &fosite.ClientLifespanConfig{
		AuthorizationCodeGrantAccessTokenLifespan: d("ac_at"), AuthorizationCodeGrantRefreshTokenLifespan: d("ac_rt"),
		ClientCredentialsGrantAccessTokenLifespan: d("cc_at"), ImplicitGrantAccessTokenLifespan: d("im_at"),
		PasswordGrantAccessTokenLifespan: d("pw_at"), PasswordGrantRefreshTokenLifespan: d("pw_rt"),
		RefreshTokenGrantAccessTokenLifespan: d("rt_at"), RefreshTokenGrantRefreshTokenLifespan: d("rt_rt"),
	}
}

// hxClient is the client object registered in the store: fosite.DefaultClient plus the optional interfaces the histories
// exercise: a lifespan table (when the case has one) and the response modes a client may ask for (all of them).
type hxClient struct {
	*fosite.DefaultClient
	life *fosite.ClientLifespanConfig
}

func (c *hxClient) GetEffectiveLifespan(gt fosite.GrantType, tt fosite.TokenType, fallback time.Duration) time.Duration {
	return (&fosite.DefaultClientWithCustomTokenLifespans{DefaultClient: c.DefaultClient, TokenLifespans: c.life}).GetEffectiveLifespan(gt, tt, fallback)
}

func (c *hxClient) GetResponseModes() []fosite.ResponseModeType {
	return []fosite.ResponseModeType{fosite.ResponseModeDefault, fosite.ResponseModeQuery, fosite.ResponseModeFragment, fosite.ResponseModeFormPost}
}

func registered(dc *fosite.DefaultClient, c *HClient) fosite.Client {
	hc := &hxClient{DefaultClient: dc}
	if c.Life != nil {
		hc.life = lifeCfg(c.Life)
	}
	return hc
}

type HTok struct {
	Ref    int  `json:"ref"` // index into the log of issued credentials; -1 = a token the server never issued
	Tamper bool `json:"tamper"`
	// a token the server never issued, made from an issued one (1-based index into the issued credentials, 0 = none)
	// by adding white space after it: another string, hence another (unknown) credential for the model
	PadOf int    `json:"pad_of,omitempty"`
	Pad   string `json:"pad,omitempty"`
}

type HOp struct {
	Kind string `json:"kind"` // authorize redeem refresh revoke introspect advance setclient
	// authorize
	RType     string   `json:"response_type,omitempty"` // "" = code, "token", "code token"
	Client    int      `json:"client,omitempty"`
	Redirect  string   `json:"redirect,omitempty"`
	Scopes    []string `json:"scopes,omitempty"`
	Granted   []string `json:"granted,omitempty"`
	Aud       []string `json:"aud,omitempty"`
	GAud      []string `json:"granted_aud,omitempty"`
	Subject   string   `json:"subject,omitempty"`
	Challenge string   `json:"challenge,omitempty"`
	Method    string   `json:"method,omitempty"`
	// token endpoint / revocation
	Auth     int      `json:"auth"` // authenticated client; -1 = bad credentials
	Tok      HTok     `json:"tok"`
	Verifier string   `json:"verifier,omitempty"`
	Smuggled []string `json:"smuggled,omitempty"`
	Hint     string   `json:"hint,omitempty"` // access_token | refresh_token | other
	// password grant
	CredsOK bool `json:"creds_ok,omitempty"`
	// introspection endpoint: caller = client (Auth) or bearer token
	Bearer *HTok `json:"bearer,omitempty"`
	// PAR: client_id in the body (-1 = absent), request_uri smuggled into the push, foreign-prefix request_uri
	BodyClient    int  `json:"body_client,omitempty"`
	IDInQuery     bool `json:"client_id_in_query,omitempty"` // push: the client_id travels in the request URI's query instead of the body (r.Form merges both: same operation for the model)
	HasRequestURI bool `json:"has_request_uri,omitempty"`
	ForeignURI    bool `json:"foreign_uri,omitempty"`
	// device decision
	Accept bool `json:"accept,omitempty"`
	// token endpoint: a client_id form parameter naming this client is sent next to the (Basic) credentials; 0 = none, n = client n-1
	ClaimedClient int `json:"claimed_client,omitempty"`
	// a public client identifies itself in the HTTP Basic header (empty password) instead of the client_id parameter
	PublicBasic bool `json:"public_basic,omitempty"`
	// the grant_type parameter is sent in this spelling instead of the registered one (e.g. "Authorization_Code"):
	// no handler may answer it
	GrantSpelling string `json:"grant_spelling,omitempty"`
	// decide: the application replaces the stored request's session by a new one of its own (no code expiry recorded in it)
	FreshSession bool `json:"fresh_session,omitempty"`
	// push / authorize_par: the response_mode parameter of the pushed request resp. of the query next to the request_uri
	Mode string `json:"response_mode,omitempty"`
	// advance
	Ms int64 `json:"ms,omitempty"`
	// setclient
	NewClient *HClient `json:"new_client,omitempty"`
}

type HHistory struct {
	Cfg     HConfig   `json:"config"`
	Clients []HClient `json:"clients"`
	Ops     []HOp     `json:"ops"`
}

type HPayload struct {
	Use     string   `json:"use"`
	Client  int      `json:"client"`
	Subject string   `json:"subject"`
	Scopes  []string `json:"scopes"`
	Aud     []string `json:"aud"`
	Exp     *int64   `json:"exp_ms"`
}

type HObs struct {
	Err       string      `json:"err"`
	Minted    []string    `json:"minted"`
	ExpiresIn int64       `json:"expires_in"`
	Scopes    []string    `json:"scopes"`
	Probes    []*HPayload `json:"probes"`
}

var (
	rsaOnce sync.Once
	rsaKey  *rsa.PrivateKey
	secHash = map[string][]byte{}
	secMu   sync.Mutex
)

func theKey() *rsa.PrivateKey {
	rsaOnce.Do(func() {
		k, err := rsa.GenerateKey(rand.Reader, 2048)
		if err != nil {
			panic(err)
		}
		rsaKey = k
	})
	return rsaKey
}

func hashSecret(s string) []byte {
	secMu.Lock()
	defer secMu.Unlock()
	if h, ok := secHash[s]; ok {
		return h
	}
	h, err := bcrypt.GenerateFromPassword([]byte(s), 4)
	if err != nil {
		panic(err)
	}
	secHash[s] = h
	return h
}

// client 1 is registered as "C0": it differs from client 0 ("c0") by letter case only (client ids are case-sensitive)
func clientID(i int) string {
	if i == 1 {
		return "C0"
	}
	return fmt.Sprintf("c%d", i)
}
func clientSecret(i int) string { return fmt.Sprintf("secret-of-c%d", i) }
func clientRedirect(i int) string {
	if i%2 == 1 {
		// every second client is a native app with a loopback redirect URI (RFC 8252): the token endpoint must still compare
		// the redirect_uri of the authorization request as a string, port included
		return fmt.Sprintf("http://127.0.0.1:%d/cb", 48100+i)
	}
	return fmt.Sprintf("https://app-c%d.example/cb", i)
}

func scopeStrategy(name string) fosite.ScopeStrategy {
	switch name {
	case "exact":
		return fosite.ExactScopeStrategy
	case "hierarchic":
		return fosite.HierarchicScopeStrategy
	}
	return fosite.WildcardScopeStrategy
}

type issuedTok struct {
	kind string // code access refresh
	tok  string
}

type world struct {
	t       *testing.T
	cfg     HConfig
	conf    *fosite.Config
	store   *storage.MemoryStore
	prov    fosite.OAuth2Provider
	clients []*fosite.DefaultClient
	issued  []issuedTok
	epoch   time.Time
	jwt     bool
	pubBasic bool
}

func ms(d int64) time.Duration { return time.Duration(d) * time.Millisecond }

func newWorld(t *testing.T, h *HHistory) *world {
	w := &world{t: t, cfg: h.Cfg, epoch: time.Now()}
	rtLife := ms(h.Cfg.LifeRT)
	if h.Cfg.LifeRT < 0 {
		rtLife = -1
	}
	rs := h.Cfg.RefreshScopes
	if rs == nil {
		rs = []string{}
	}
	w.conf = &fosite.Config{
		GlobalSecret:                   []byte("0123456789abcdef0123456789abcdef-global"),
		AuthorizeCodeLifespan:          ms(h.Cfg.LifeCode),
		AccessTokenLifespan:            ms(h.Cfg.LifeAT),
		RefreshTokenLifespan:           rtLife,
		ScopeStrategy:                  scopeStrategy(h.Cfg.Scope),
		AudienceMatchingStrategy:       fosite.DefaultAudienceMatchingStrategy,
		RefreshTokenScopes:             rs,
		EnforcePKCE:                    h.Cfg.PkceEnforce,
		EnforcePKCEForPublicClients:    h.Cfg.PkceEnforcePublic,
		EnablePKCEPlainChallengeMethod: h.Cfg.PkcePlain,
		DisableRefreshTokenValidation:  !h.Cfg.IntrospectRT,
		DeviceAndUserCodeLifespan:      ms(h.Cfg.LifeDev),
		DeviceVerificationURL:          "https://as.example/device",
		PushedAuthorizeContextLifespan: ms(h.Cfg.ParLife),
		IsPushedAuthorizeEnforced:      h.Cfg.ParEnforced,
		TokenURL:                       "https://as.example/token",
		SendDebugMessagesToClients:     true,
	}
	if h.Cfg.AudExact {
		w.conf.AudienceMatchingStrategy = fosite.ExactAudienceMatchingStrategy
	}
	w.store = storage.NewMemoryStore()
	for i, c := range h.Clients {
		dc := &fosite.DefaultClient{}
		w.applyClient(dc, i, &c)
		w.clients = append(w.clients, dc)
		w.store.Clients[dc.ID] = registered(dc, &c)
	}
	w.store.Users["peter"] = storage.MemoryUserRelation{Username: "peter", Password: "secret"}
	var st interface{} = &valueStore{w.store}
	if h.Cfg.RawStore {
		st = w.store
	}
	if h.Cfg.ContractStore {
		st = &contractStore{valueStore: &valueStore{w.store}, used: map[string]fosite.DeviceRequester{}}
	}
	if h.Cfg.JWTAccess {
		w.jwt = true
		w.prov = composeAllEnabledJWT(w.conf, st, theKey())
	} else {
		w.prov = compose.ComposeAllEnabled(w.conf, st, theKey())
	}
	return w
}

func (w *world) applyClient(dc *fosite.DefaultClient, i int, c *HClient) {
	dc.ID = clientID(i)
	dc.Public = c.Public
	if !c.Public {
		dc.Secret = hashSecret(clientSecret(i))
	}
	dc.RedirectURIs = []string{clientRedirect(i)}
	dc.GrantTypes = append([]string{}, c.Grants...)
	dc.ResponseTypes = []string{"code", "token", "id_token", "code token", "code id_token", "id_token token", "code id_token token"}
	dc.Scopes = append([]string{}, c.Scopes...)
	dc.Audience = append([]string{}, c.Aud...)
}

func errName(err error) string {
	if err == nil {
		return ""
	}
	return fosite.ErrorToRFC6749Error(err).ErrorField
}

func clientIndex(id string) int {
	var i int
	if id == "C0" {
		return 1
	}
	if _, err := fmt.Sscanf(id, "c%d", &i); err != nil {
		return -1
	}
	return i
}

func (w *world) token(t HTok, kind string) string {
	if (t.Ref < 0 || t.Ref >= len(w.issued)) && t.PadOf > 0 && t.PadOf <= len(w.issued) && t.Pad != "" {
		return w.issued[t.PadOf-1].tok + t.Pad
	}
	if t.Ref < 0 || t.Ref >= len(w.issued) {
		return "ory_" + kind + "_AAAAAAAAAAAAAAAAAAAAAAAAAAAAAAAAAAAAAAAAAAA.BBBBBBBBBBBBBBBBBBBBBBBBBBBBBBBBBBBBBBBBBBB"
	}
	tok := w.issued[t.Ref].tok
	if t.Tamper {
		// alter the first character of the random part, keep the signature part
		p := 0
		if strings.HasPrefix(tok, "ory_") {
			p = 7
		}
		b := []byte(tok)
		if b[p] == 'A' {
			b[p] = 'B'
		} else {
			b[p] = 'A'
		}
		tok = string(b)
	}
	return tok
}

func (w *world) kindOf(t HTok) string {
	if t.Ref >= 0 && t.Ref < len(w.issued) && w.issued[t.Ref].kind == "refresh" {
		return "rt"
	}
	return "at"
}

func (w *world) authForm(req *http.Request, form url.Values, auth int) {
	if auth < 0 {
		req.SetBasicAuth("no-such-client", "wrong-secret")
		return
	}
	if auth < len(w.clients) && w.clients[auth].Public {
		if w.pubBasic {
			req.SetBasicAuth(url.QueryEscape(clientID(auth)), "")
			return
		}
		if form.Get("client_id") == "" || form.Get("grant_type") != "" {
			form.Set("client_id", clientID(auth))
		}
		return
	}
	req.SetBasicAuth(url.QueryEscape(clientID(auth)), url.QueryEscape(clientSecret(auth)))
}

func (w *world) claim(form url.Values, op *HOp) {
	if op.ClaimedClient > 0 && op.Auth >= 0 && op.Auth < len(w.clients) && (!w.clients[op.Auth].Public || op.PublicBasic) {
		form.Set("client_id", clientID(op.ClaimedClient-1))
	}
}

func (w *world) postReq(path string, form url.Values, auth int) *http.Request {
	req := httptest.NewRequest("POST", path, nil)
	w.authForm(req, form, auth)
	body := form.Encode()
	req2 := httptest.NewRequest("POST", path, strings.NewReader(body))
	req2.Header = req.Header
	req2.Header.Set("Content-Type", "application/x-www-form-urlencoded")
	return req2
}

func s256(v string) string {
	h := sha256.Sum256([]byte(v))
	return base64.RawURLEncoding.EncodeToString(h[:])
}

func (w *world) exec(op *HOp) HObs {
	ctx := context.Background()
	w.pubBasic = op.PublicBasic
	o := HObs{Minted: []string{}, Scopes: []string{}}
	switch op.Kind {
	case "authorize", "authorize_par", "push":
		q := url.Values{}
		q.Set("response_type", "code")
		if op.Kind == "authorize" && op.RType != "" {
			q.Set("response_type", op.RType)
		}
		q.Set("state", "state-0123456789")
		switch op.Kind {
		case "authorize":
			q.Set("client_id", clientID(op.Client))
			if op.ForeignURI {
				q.Set("request_uri", "urn:foreign:prefix:abcdef")
			}
		case "authorize_par":
			q.Set("client_id", clientID(op.Client))
			// a conflicting state next to the request_uri: the pushed one ("state-0123456789") must win
			q.Set("state", "state-from-the-query-9876543210")
			if op.Tok.Ref >= 0 && op.Tok.Ref < len(w.issued) {
				q.Set("request_uri", w.issued[op.Tok.Ref].tok)
			} else {
				q.Set("request_uri", "urn:ietf:params:oauth:request_uri:AAAAAAAAAAAAAAAAAAAAAAAAAAAAAAAAAAAAAAAAAAA")
			}
		case "push":
			if op.BodyClient >= 0 {
				q.Set("client_id", clientID(op.BodyClient))
			}
			if op.HasRequestURI {
				q.Set("request_uri", "urn:ietf:params:oauth:request_uri:smuggled")
			}
		}
		if op.Redirect != "" {
			q.Set("redirect_uri", op.Redirect)
		}
		if len(op.Scopes) > 0 {
			q.Set("scope", strings.Join(op.Scopes, " "))
		}
		if len(op.Aud) > 0 {
			q.Set("audience", strings.Join(op.Aud, " "))
		}
		if op.Challenge != "" {
			q.Set("code_challenge", op.Challenge)
		}
		if op.Method != "" {
			q.Set("code_challenge_method", op.Method)
		}
		if op.Mode != "" && op.Kind != "authorize" {
			q.Set("response_mode", op.Mode)
		}
		if op.Kind == "push" {
			path := "/par"
			if op.IDInQuery && q.Get("client_id") != "" && op.Auth >= 0 && op.Auth < len(w.clients) && (!w.clients[op.Auth].Public || op.PublicBasic) {
				path += "?client_id=" + url.QueryEscape(q.Get("client_id"))
				q.Del("client_id")
			}
			req := w.postReq(path, q, op.Auth)
			par, err := w.prov.NewPushedAuthorizeRequest(ctx, req)
			if err != nil {
				o.Err = errName(err)
				return o
			}
			presp, err := w.prov.NewPushedAuthorizeResponse(ctx, par, w.sess(""))
			if err != nil {
				o.Err = errName(err)
				return o
			}
			w.issued = append(w.issued, issuedTok{"par", presp.GetRequestURI()})
			o.Minted = append(o.Minted, "par")
			o.ExpiresIn = int64(presp.GetExpiresIn())
			return o
		}
		req := httptest.NewRequest("GET", "/auth?"+q.Encode(), nil)
		ar, err := w.prov.NewAuthorizeRequest(ctx, req)
		if err != nil {
			o.Err = errName(err)
			return o
		}
		for _, s := range op.Granted {
			ar.GrantScope(s)
		}
		for _, a := range op.GAud {
			ar.GrantAudience(a)
		}
		requestedMode := ar.GetResponseMode() // before the handlers fill in the flow's default
		resp, err := w.prov.NewAuthorizeResponse(ctx, ar, w.authSess(op.Subject))
		if err != nil {
			o.Err = errName(err)
			return o
		}
		if at := resp.GetParameters().Get("access_token"); at != "" {
			w.issued = append(w.issued, issuedTok{"implicit", at})
			o.Minted = append(o.Minted, "implicit")
			if ei, err := strconv.ParseInt(resp.GetParameters().Get("expires_in"), 10, 64); err == nil {
				o.ExpiresIn = ei
			}
		}
		if code := resp.GetCode(); code != "" {
			w.issued = append(w.issued, issuedTok{"code", code})
			o.Minted = append(o.Minted, "code")
		}
		if op.Kind == "authorize_par" {
			// the response mode the answer will be written in (reported only when it is not the flow's default)
			if requestedMode != fosite.ResponseModeDefault && requestedMode != fosite.ResponseModeQuery {
				o.Scopes = []string{string(requestedMode)}
			}
			// ... and the state it proceeds with and answers with (reported only when it is not the pushed one)
			if st := ar.GetState(); st != "state-0123456789" {
				o.Scopes = append(o.Scopes, "state="+st)
			} else if st := resp.GetParameters().Get("state"); st != "state-0123456789" {
				o.Scopes = append(o.Scopes, "answered-state="+st)
			}
		}
	case "redeem", "refresh":
		form := url.Values{}
		if op.Kind == "redeem" {
			form.Set("grant_type", "authorization_code")
			form.Set("code", w.token(op.Tok, "ac"))
			if op.Redirect != "" {
				form.Set("redirect_uri", op.Redirect)
			}
			if op.Verifier != "" {
				form.Set("code_verifier", op.Verifier)
			}
		} else {
			form.Set("grant_type", "refresh_token")
			form.Set("refresh_token", w.token(op.Tok, "rt"))
		}
		if len(op.Smuggled) > 0 {
			form.Set("scope", strings.Join(op.Smuggled, " "))
			form.Set("audience", "https://smuggled.example/api")
		}
		if op.GrantSpelling != "" {
			form.Set("grant_type", op.GrantSpelling)
		}
		w.claim(form, op)
		req := w.postReq("/token", form, op.Auth)
		ar, err := w.prov.NewAccessRequest(ctx, req, w.sess(""))
		if err != nil {
			o.Err = errName(err)
			return o
		}
		resp, err := w.prov.NewAccessResponse(ctx, ar)
		if err != nil {
			o.Err = errName(err)
			return o
		}
		if at := resp.GetAccessToken(); at != "" {
			w.issued = append(w.issued, issuedTok{"access", at})
			o.Minted = append(o.Minted, "access")
		}
		if rt, ok := resp.GetExtra("refresh_token").(string); ok && rt != "" {
			w.issued = append(w.issued, issuedTok{"refresh", rt})
			o.Minted = append(o.Minted, "refresh")
		}
		if ei, ok := resp.GetExtra("expires_in").(int64); ok {
			o.ExpiresIn = ei
		}
		if sc, ok := resp.GetExtra("scope").(string); ok && sc != "" {
			o.Scopes = strings.Split(sc, " ")
		}
	case "password", "clientcreds":
		form := url.Values{}
		if op.Kind == "password" {
			form.Set("grant_type", "password")
			form.Set("username", "peter")
			if op.CredsOK {
				form.Set("password", "secret")
			} else {
				form.Set("password", "wrong")
			}
		} else {
			form.Set("grant_type", "client_credentials")
		}
		if len(op.Scopes) > 0 {
			form.Set("scope", strings.Join(op.Scopes, " "))
		}
		if len(op.Aud) > 0 {
			form.Set("audience", strings.Join(op.Aud, " "))
		}
		req := w.postReq("/token", form, op.Auth)
		ar, err := w.prov.NewAccessRequest(ctx, req, w.sess(""))
		if err != nil {
			o.Err = errName(err)
			return o
		}
		for _, s := range op.Granted {
			ar.GrantScope(s)
		}
		for _, a := range op.GAud {
			ar.GrantAudience(a)
		}
		resp, err := w.prov.NewAccessResponse(ctx, ar)
		if err != nil {
			o.Err = errName(err)
			return o
		}
		if at := resp.GetAccessToken(); at != "" {
			w.issued = append(w.issued, issuedTok{"access", at})
			o.Minted = append(o.Minted, "access")
		}
		if rt, ok := resp.GetExtra("refresh_token").(string); ok && rt != "" {
			w.issued = append(w.issued, issuedTok{"refresh", rt})
			o.Minted = append(o.Minted, "refresh")
		}
		if ei, ok := resp.GetExtra("expires_in").(int64); ok {
			o.ExpiresIn = ei
		}
		if sc, ok := resp.GetExtra("scope").(string); ok && sc != "" {
			o.Scopes = strings.Split(sc, " ")
		}
	case "introspect_ep":
		form := url.Values{}
		form.Set("token", w.token(op.Tok, w.kindOf(op.Tok)))
		switch op.Hint {
		case "access_token", "refresh_token":
			form.Set("token_type_hint", op.Hint)
		case "other":
			form.Set("token_type_hint", "garbage")
		}
		if len(op.Scopes) > 0 {
			form.Set("scope", strings.Join(op.Scopes, " "))
		}
		var req *http.Request
		if op.Bearer != nil {
			req = httptest.NewRequest("POST", "/introspect", strings.NewReader(form.Encode()))
			req.Header.Set("Content-Type", "application/x-www-form-urlencoded")
			req.Header.Set("Authorization", "Bearer "+w.token(*op.Bearer, w.kindOf(*op.Bearer)))
		} else {
			// the introspection endpoint only accepts Basic credentials for clients
			req = httptest.NewRequest("POST", "/introspect", strings.NewReader(form.Encode()))
			req.Header.Set("Content-Type", "application/x-www-form-urlencoded")
			if op.Auth < 0 {
				req.SetBasicAuth("no-such-client", "wrong-secret")
			} else {
				req.SetBasicAuth(url.QueryEscape(clientID(op.Auth)), url.QueryEscape(clientSecret(op.Auth)))
			}
		}
		ir, err := w.prov.NewIntrospectionRequest(ctx, req, w.sess(""))
		o.Err = errName(err)
		if err == nil && ir != nil && ir.IsActive() {
			o.Scopes = []string{string(ir.GetTokenUse())}
		}
	case "device_auth":
		form := url.Values{}
		form.Set("client_id", clientID(op.BodyClient))
		if len(op.Scopes) > 0 {
			form.Set("scope", strings.Join(op.Scopes, " "))
		}
		if len(op.Aud) > 0 {
			form.Set("audience", strings.Join(op.Aud, " "))
		}
		keep := form.Get("client_id")
		req := w.postReq("/device", form, op.Auth)
		_ = keep
		dr, err := w.prov.NewDeviceRequest(ctx, req)
		if err != nil {
			o.Err = errName(err)
			return o
		}
		resp, err := w.prov.NewDeviceResponse(ctx, dr, w.sess(""))
		if err != nil {
			o.Err = errName(err)
			return o
		}
		w.issued = append(w.issued, issuedTok{"device", resp.GetDeviceCode()}, issuedTok{"user", resp.GetUserCode()})
		o.Minted = append(o.Minted, "device", "user")
		o.ExpiresIn = resp.GetExpiresIn()
	case "decide":
		if op.Tok.Ref < 0 || op.Tok.Ref+1 >= len(w.issued) || w.issued[op.Tok.Ref].kind != "device" {
			o.Err = "not_found"
			return o
		}
		strat := compose.NewDeviceStrategy(w.conf)
		sig, _ := strat.DeviceCodeSignature(ctx, w.issued[op.Tok.Ref].tok)
		d, ok := w.store.DeviceAuths[sig]
		if !ok {
			o.Err = "not_found"
			return o
		}
		if err := strat.ValidateUserCode(ctx, d, w.issued[op.Tok.Ref+1].tok); err != nil {
			o.Err = errName(err)
			return o
		}
		dr := d.(*fosite.DeviceRequest)
		if op.Accept {
			dr.SetUserCodeState(fosite.UserCodeAccepted)
		} else {
			dr.SetUserCodeState(fosite.UserCodeRejected)
		}
		dr.GrantedScope = append(fosite.Arguments{}, op.Granted...)
		dr.GrantedAudience = append(fosite.Arguments{}, op.GAud...)
		if op.FreshSession {
			dr.SetSession(w.sess(op.Subject))
		} else if ss, ok := dr.GetSession().(interface{ SetSubject(string) }); ok {
			ss.SetSubject(op.Subject)
		}
	case "device_poll":
		form := url.Values{}
		form.Set("grant_type", "urn:ietf:params:oauth:grant-type:device_code")
		form.Set("device_code", w.token(op.Tok, "dc"))
		w.claim(form, op)
		req := w.postReq("/token", form, op.Auth)
		ar, err := w.prov.NewAccessRequest(ctx, req, w.sess(""))
		if err != nil {
			o.Err = errName(err)
			return o
		}
		resp, err := w.prov.NewAccessResponse(ctx, ar)
		if err != nil {
			o.Err = errName(err)
			return o
		}
		if at := resp.GetAccessToken(); at != "" {
			w.issued = append(w.issued, issuedTok{"access", at})
			o.Minted = append(o.Minted, "access")
		}
		if rt, ok := resp.GetExtra("refresh_token").(string); ok && rt != "" {
			w.issued = append(w.issued, issuedTok{"refresh", rt})
			o.Minted = append(o.Minted, "refresh")
		}
		if ei, ok := resp.GetExtra("expires_in").(int64); ok {
			o.ExpiresIn = ei
		}
		if sc, ok := resp.GetExtra("scope").(string); ok && sc != "" {
			o.Scopes = strings.Split(sc, " ")
		}
	case "revoke":
		form := url.Values{}
		kind := "at"
		if op.Tok.Ref >= 0 && op.Tok.Ref < len(w.issued) && w.issued[op.Tok.Ref].kind == "refresh" {
			kind = "rt"
		}
		form.Set("token", w.token(op.Tok, kind))
		switch op.Hint {
		case "access_token", "refresh_token":
			form.Set("token_type_hint", op.Hint)
		case "other":
			form.Set("token_type_hint", "garbage")
		}
		req := w.postReq("/revoke", form, op.Auth)
		o.Err = errName(w.prov.NewRevocationRequest(ctx, req))
	case "introspect":
		kind := "at"
		if op.Tok.Ref >= 0 && op.Tok.Ref < len(w.issued) && w.issued[op.Tok.Ref].kind == "refresh" {
			kind = "rt"
		}
		use := fosite.TokenUse(op.Hint)
		if op.Hint == "other" {
			use = "garbage"
		}
		tu, _, err := w.prov.IntrospectToken(ctx, w.token(op.Tok, kind), use, w.sess(""), op.Scopes...)
		if err != nil {
			o.Err = "inactive"
		} else {
			o.Scopes = []string{string(tu)} // the token use the introspection reports
		}
	case "advance":
		time.Sleep(ms(op.Ms))
	case "setclient":
		// a new client object replaces the registration (as a persistent store would hand out);
		// requests stored earlier keep pointing at the object they were written with
		dc := &fosite.DefaultClient{}
		w.applyClient(dc, op.Client, op.NewClient)
		w.clients[op.Client] = dc
		w.store.Clients[dc.ID] = registered(dc, op.NewClient)
	default:
		w.t.Fatalf("unknown op kind %q", op.Kind)
	}
	return o
}

func (w *world) probe() []*HPayload {
	ctx := context.Background()
	out := make([]*HPayload, len(w.issued))
	for i, it := range w.issued {
		var use fosite.TokenUse
		var tt fosite.TokenType
		switch it.kind {
		case "access", "implicit":
			use, tt = fosite.AccessToken, fosite.AccessToken
		case "refresh":
			use, tt = fosite.RefreshToken, fosite.RefreshToken
		default:
			continue
		}
		tu, ar, err := w.prov.IntrospectToken(ctx, it.tok, use, w.sess(""))
		if err != nil {
			continue
		}
		p := &HPayload{Use: string(tu), Client: clientIndex(ar.GetClient().GetID()), Subject: normSubject(ar.GetSession().GetSubject()),
			Scopes: append([]string{}, ar.GetGrantedScopes()...), Aud: append([]string{}, ar.GetGrantedAudience()...)}
		if tu == fosite.RefreshToken {
			tt = fosite.RefreshToken
		} else {
			tt = fosite.AccessToken
		}
		if e := ar.GetSession().GetExpiresAt(tt); !e.IsZero() {
			v := e.Sub(w.epoch).Milliseconds()
			p.Exp = &v
		}
		if w.jwt && tt == fosite.AccessToken {
			// a JWT is read by resource servers from its own claims: scopes and audience are taken from there
			if cl := jwtClaims(it.tok); cl != nil {
				p.Scopes, p.Aud = claimStrings(cl["scp"]), claimStrings(cl["aud"])
				if e, ok := cl["exp"].(float64); ok {
					v := time.Unix(int64(e), 0).Sub(w.epoch).Milliseconds()
					p.Exp = &v
				}
			}
		}
		out[i] = p
	}
	return out
}

// the reference user store answers a random UUID as the subject of a password grant
func normSubject(s string) string {
	if len(s) == 36 && s[8] == '-' && s[13] == '-' && s[18] == '-' && s[23] == '-' {
		return "uuid"
	}
	return s
}

// runHistory executes h inside a synctest bubble and returns one observation per op.
func runHistory(t *testing.T, h *HHistory) []HObs {
	var res []HObs
	synctest.Test(t, func(t *testing.T) {
		w := newWorld(t, h)
		for i := range h.Ops {
			o := w.exec(&h.Ops[i])
			o.Probes = w.probe()
			res = append(res, o)
		}
	})
	return res
}

// ---------------------------------------------------------------- Coq printers

func coqAurl(raw string) string { return aurlCoq(raw) }

func coqAurls(l []string) string {
	p := make([]string, len(l))
	for i, a := range l {
		p[i] = coqAurl(a)
	}
	return L(p)
}

func coqCfg(c *HConfig) string {
	strat := map[string]string{"exact": "SExact", "hierarchic": "SHierarchic", "wildcard": "SWildcard"}[c.Scope]
	return fmt.Sprintf("(Build_config %s %s %s %s %s %s %s %s %s %s %s %s %s %s)", strat, B(c.AudExact), QL(c.RefreshScopes),
		Z(c.LifeCode), Z(c.LifeAT), Z(c.LifeRT), B(c.PkceEnforce), B(c.PkceEnforcePublic), B(c.PkcePlain), B(c.IntrospectRT),
		Z(c.LifeDev), Z(c.ParLife), B(c.ParEnforced), B(c.ContractStore))
}

func coqClient(c *HClient) string {
	life := "None"
	if c.Life != nil {
		parts := make([]string, len(lifeKeys))
		for i, k := range lifeKeys {
			if v, ok := c.Life[k]; ok {
				parts[i] = "(Some " + Z(v) + ")"
			} else {
				parts[i] = "None"
			}
		}
		life = "(Some (Build_lifespans " + strings.Join(parts, " ") + "))"
	}
	return fmt.Sprintf("(Build_client %s %s %s %s %s)", B(c.Public), QL(c.Grants), QL(c.Scopes), coqAurls(c.Aud), life)
}

func coqTok(t HTok) string {
	ref := "CUnknown"
	if t.Ref >= 0 {
		ref = fmt.Sprintf("(CRef %d)", t.Ref)
	}
	return fmt.Sprintf("(Build_pres %s %s)", ref, B(t.Tamper))
}

func coqAuth(a int) string {
	if a < 0 {
		return "None"
	}
	return fmt.Sprintf("(Some %d)", a)
}

func coqHint(h string) string {
	switch h {
	case "access_token":
		return "HAccess"
	case "refresh_token":
		return "HRefresh"
	}
	return "HOther"
}

func coqOp(op *HOp) string {
	if op.GrantSpelling != "" {
		return fmt.Sprintf("OTokenOther %s", coqAuth(op.Auth))
	}
	switch op.Kind {
	case "authorize":
		rt := map[string]string{"": "RCode", "code": "RCode", "token": "RToken", "code token": "RCodeToken"}[op.RType]
		return fmt.Sprintf("OAuthorize (Build_authz %s %d %s %s %s %s %s %s %s %s \"\")", rt, op.Client, Q(op.Redirect), QL(op.Scopes), QL(op.Granted),
			coqAurls(op.Aud), coqAurls(op.GAud), Q(op.Subject), Q(op.Challenge), Q(op.Method))
	case "redeem":
		return fmt.Sprintf("ORedeem %s %s %s %s %s %s", coqAuth(op.Auth), coqTok(op.Tok), Q(op.Redirect), Q(op.Verifier), Q(s256(op.Verifier)), QL(op.Smuggled))
	case "refresh":
		return fmt.Sprintf("ORefresh %s %s %s", coqAuth(op.Auth), coqTok(op.Tok), QL(op.Smuggled))
	case "revoke":
		return fmt.Sprintf("ORevoke %s %s %s", coqAuth(op.Auth), coqTok(op.Tok), coqHint(op.Hint))
	case "introspect":
		return fmt.Sprintf("OIntrospect %s %s %s", coqTok(op.Tok), coqHint(op.Hint), QL(op.Scopes))
	case "push":
		bc := "None"
		if op.BodyClient >= 0 {
			bc = fmt.Sprintf("(Some %d)", op.BodyClient)
		}
		return fmt.Sprintf("OPush %s %s %s (Build_authz RCode 0 %s %s [] %s [] \"\" %s %s %s)", coqAuth(op.Auth), bc, B(op.HasRequestURI), Q(op.Redirect), QL(op.Scopes),
			coqAurls(op.Aud), Q(op.Challenge), Q(op.Method), Q(op.Mode))
	case "authorize_par":
		return fmt.Sprintf("OAuthorizePAR %d %s (Build_authz RCode %d %s %s %s %s %s %s %s %s %s)", op.Client, coqTok(op.Tok), op.Client, Q(op.Redirect), QL(op.Scopes), QL(op.Granted),
			coqAurls(op.Aud), coqAurls(op.GAud), Q(op.Subject), Q(op.Challenge), Q(op.Method), Q(op.Mode))
	case "device_auth":
		return fmt.Sprintf("ODeviceAuth %s %d %s %s", coqAuth(op.Auth), op.BodyClient, QL(op.Scopes), coqAurls(op.Aud))
	case "decide":
		return fmt.Sprintf("ODecide %s %s %s %s %s %s", coqTok(op.Tok), B(op.Accept), QL(op.Granted), coqAurls(op.GAud), Q(op.Subject), B(op.FreshSession))
	case "device_poll":
		return fmt.Sprintf("ODevicePoll %s %s", coqAuth(op.Auth), coqTok(op.Tok))
	case "password":
		return fmt.Sprintf("OPassword %s %s %s %s %s %s", coqAuth(op.Auth), B(op.CredsOK), QL(op.Scopes), coqAurls(op.Aud), QL(op.Granted), coqAurls(op.GAud))
	case "clientcreds":
		return fmt.Sprintf("OClientCreds %s %s %s %s %s", coqAuth(op.Auth), QL(op.Scopes), coqAurls(op.Aud), QL(op.Granted), coqAurls(op.GAud))
	case "introspect_ep":
		cal := "(CallerClient " + coqAuth(op.Auth) + ")"
		if op.Bearer != nil {
			cal = "(CallerBearer " + coqTok(*op.Bearer) + ")"
		}
		return fmt.Sprintf("OIntrospectEP %s %s %s %s", cal, coqTok(op.Tok), coqHint(op.Hint), QL(op.Scopes))
	case "advance":
		return fmt.Sprintf("OAdvance %s", Z(op.Ms))
	case "setclient":
		return fmt.Sprintf("OSetClient %d %s", op.Client, coqClient(op.NewClient))
	}
	panic("op kind " + op.Kind)
}

func coqKind(k string) string {
	switch k {
	case "code":
		return "KCode"
	case "access", "access_token":
		return "KAccess"
	case "device":
		return "KDevice"
	case "user":
		return "KUser"
	case "par":
		return "KPar"
	case "implicit":
		return "KImplicit"
	}
	return "KRefresh"
}

func coqObs(o *HObs) string {
	ks := make([]string, len(o.Minted))
	for i, k := range o.Minted {
		ks[i] = coqKind(k)
	}
	return fmt.Sprintf("(Build_obs %s %s %s %s)", Q(o.Err), L(ks), Z(o.ExpiresIn), QL(o.Scopes))
}

func coqPayload(p *HPayload) string {
	if p == nil {
		return "None"
	}
	exp := "None"
	if p.Exp != nil {
		exp = "(Some " + Z(*p.Exp) + ")"
	}
	cl := p.Client
	if cl < 0 {
		cl = 9999 // an answer that names no registered client
	}
	return fmt.Sprintf("(Some (Build_payload %s %d %s %s %s %s))", coqKind(p.Use), cl, Q(p.Subject), QL(p.Scopes), QL(p.Aud), exp)
}

// probe vectors are written as the entries that changed since the previous step
func coqProbeDelta(prev, cur []*HPayload) string {
	var parts []string
	for i, p := range cur {
		var old string = "None"
		if i < len(prev) {
			old = coqPayload(prev[i])
		}
		if n := coqPayload(p); n != old {
			parts = append(parts, fmt.Sprintf("(%d, %s)", i, n))
		}
	}
	return L(parts)
}

func coqHistory(h *HHistory, obs []HObs) string {
	cl := make([]string, len(h.Clients))
	for i := range h.Clients {
		cl[i] = coqClient(&h.Clients[i])
	}
	steps := make([]string, len(h.Ops))
	var prev []*HPayload
	for i := range h.Ops {
		steps[i] = fmt.Sprintf("(%s, %s, %s)", coqOp(&h.Ops[i]), coqObs(&obs[i]), coqProbeDelta(prev, obs[i].Probes))
		prev = obs[i].Probes
	}
	ctor := "HCase"
	if h.Cfg.ContractStore {
		ctor = "HCaseContract"
	} else if h.Cfg.JWTAccess {
		ctor = "HCaseJwt"
	} else if h.Cfg.RawStore {
		ctor = "HCaseRaw"
	}
	return fmt.Sprintf("%s %s %s\n   %s", ctor, coqCfg(&h.Cfg), L(cl), "["+strings.Join(steps, ";\n    ")+"]")
}


// ---------------------------------------------------------------- JWT access-token strategy

// composeAllEnabledJWT is compose.ComposeAllEnabled with the core strategy replaced by the JWT access-token
// strategy (authorize codes and refresh tokens stay HMAC, as compose.NewOAuth2JWTStrategy arranges it)
func composeAllEnabledJWT(config *fosite.Config, storage interface{}, key interface{}) fosite.OAuth2Provider {
	keyGetter := func(context.Context) (interface{}, error) { return key, nil }
	return compose.Compose(config, storage,
		&compose.CommonStrategy{
			CoreStrategy:               compose.NewOAuth2JWTStrategy(keyGetter, compose.NewOAuth2HMACStrategy(config), config),
			RFC8628CodeStrategy:        compose.NewDeviceStrategy(config),
			OpenIDConnectTokenStrategy: compose.NewOpenIDConnectStrategy(keyGetter, config),
			Signer:                     &jwt.DefaultSigner{GetPrivateKey: keyGetter},
		},
		compose.OAuth2AuthorizeExplicitFactory, compose.OAuth2AuthorizeImplicitFactory, compose.OAuth2ClientCredentialsGrantFactory,
		compose.OAuth2RefreshTokenGrantFactory, compose.OAuth2ResourceOwnerPasswordCredentialsFactory, compose.RFC7523AssertionGrantFactory,
		compose.RFC8628DeviceFactory, compose.RFC8628DeviceAuthorizationTokenFactory,
		compose.OpenIDConnectExplicitFactory, compose.OpenIDConnectImplicitFactory, compose.OpenIDConnectHybridFactory,
		compose.OpenIDConnectRefreshFactory, compose.OpenIDConnectDeviceFactory,
		compose.OAuth2TokenIntrospectionFactory, compose.OAuth2TokenRevocationFactory,
		compose.OAuth2PKCEFactory, compose.PushedAuthorizeHandlerFactory)
}

// the sessions the embedding application hands to the library
func (w *world) sess(subject string) fosite.Session {
	if w.jwt {
		return &oauth2.JWTSession{JWTClaims: &jwt.JWTClaims{Subject: subject}, JWTHeader: &jwt.Headers{}, Subject: subject}
	}
	return &fosite.DefaultSession{Subject: subject}
}

func (w *world) authSess(subject string) fosite.Session {
	if w.jwt {
		return w.sess(subject)
	}
	return &openid.DefaultSession{Subject: subject, Claims: &jwt.IDTokenClaims{Subject: subject}, Headers: &jwt.Headers{}}
}


func jwtClaims(tok string) map[string]interface{} {
	parts := strings.Split(tok, ".")
	if len(parts) != 3 {
		return nil
	}
	b, err := base64.RawURLEncoding.DecodeString(parts[1])
	if err != nil {
		return nil
	}
	var m map[string]interface{}
	if json.Unmarshal(b, &m) != nil {
		return nil
	}
	return m
}

func claimStrings(v interface{}) []string {
	out := []string{}
	switch x := v.(type) {
	case string:
		out = append(out, x)
	case []interface{}:
		for _, e := range x {
			if s, ok := e.(string); ok {
				out = append(out, s)
			}
		}
	}
	return out
}
