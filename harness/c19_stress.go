package hx

import (
	"bytes"
	"fmt"
	"os"
	"os/exec"
	"regexp"
	"sort"
	"strings"
	"testing"
	"time"

	"github.com/ory/fosite"
	"github.com/ory/fosite/handler/openid"
	"github.com/ory/fosite/token/jwt"
)

// sessions: the plain fosite.DefaultSession (session.go) unless the openid scope is in play
func newC19Session(subject string, oidc bool) fosite.Session {
	if !oidc {
		return &fosite.DefaultSession{Subject: subject, Username: subject}
	}
	return &openid.DefaultSession{
		Claims:  &jwt.IDTokenClaims{Subject: subject, Issuer: "https://as.example", AuthTime: time.Now().UTC(), RequestedAt: time.Now().UTC()},
		Headers: &jwt.Headers{},
		Subject: subject,
	}
}

var reRecvType = regexp.MustCompile(`^(\w+)\.\(\*?(\w+)\)\.`)

// raceClass coarsens a call site to the type (or function) that owns the racing access, so that
// the tag of a timing-dependent report is stable: storage.MemoryStore, fosite.Config,
// openid.DefaultSession, ...  The fine-grained, deterministic tags come from the static and pair streams.
func raceClass(site string) string {
	fn := strings.Fields(site)
	if len(fn) == 0 {
		return "?"
	}
	f := fn[0]
	if i := strings.LastIndex(f, "/"); i >= 0 {
		f = f[i+1:]
	}
	if i := strings.Index(f, ".func"); i > 0 {
		f = f[:i]
	}
	if strings.HasPrefix(f, "openid.") && reRecvType.FindStringSubmatch(f) == nil {
		// a method with a value receiver (openid.DefaultStrategy.GenerateIDToken) or a function of the package: same class
		// as below
		return "openid.DefaultSession"
	}
	if m := reRecvType.FindStringSubmatch(f); m != nil {
		typ := m[1] + "." + m[2]
		if m[1] == "openid" {
			// package handler/openid: the only request-shared mutable object its strategies and
			// handlers touch is the session and its ID-token claims (sess.IDTokenClaims() of the
			// stored request: GenerateIDToken writes ExpiresAt/AuthTime/..., the explicit handler
			// writes AccessTokenHash) - one class with the session's own methods
			return "openid.DefaultSession"
		}
		switch typ {
		case "storage.MemoryStore", "fosite.Config", "fosite.DefaultSession", "openid.DefaultSession":
			// many method combinations, and deterministic fine-grained streams exist for the first two
			return typ
		}
		return typ + "." + strings.TrimPrefix(f, m[0])
	}
	return f
}

type stressRun struct {
	name string
	env  []string
}

// c19StressStream: free-running load under the race detector (search, not proof)
func c19StressStream(t *testing.T, e Env, out *Out, only *c19Replay) {
	bin, err := c19BuildRaceBinary(e)
	if err != nil {
		t.Fatal(err)
	}
	runs := []stressRun{
		{"default-config/cold-start", []string{"C19R_CONFIG=default", "C19R_COLD=1"}},
		{"default-config/warm", []string{"C19R_CONFIG=default"}},
		{"full-config/warm", []string{"C19R_CONFIG=full"}},
		{"full-config/warm/openid", []string{"C19R_CONFIG=full", "C19R_OPENID=1"}},
	}
	reps, gor, iters := 1, 8, 24
	if e.Tier == "thorough" {
		reps, gor, iters = 12, 16, 60
	}
	for _, r := range runs {
		if only != nil && only.Stress.Config != r.name {
			continue
		}
		seen := map[string]bool{}
		requests := 0
		for rep := 0; rep < reps; rep++ {
			cmd := exec.Command(bin, "-test.run", "^TestStress$", "-test.count=1", "-test.timeout=300s")
			cmd.Env = append(append(os.Environ(), r.env...), fmt.Sprintf("C19R_GOROUTINES=%d", gor), fmt.Sprintf("C19R_ITERS=%d", iters), "GORACE=halt_on_error=0",
				fmt.Sprintf("C19R_WATCHDOG_S=%d", map[bool]int{true: 90, false: 25}[e.Tier == "thorough"]))
			var buf bytes.Buffer
			cmd.Stdout = &buf
			cmd.Stderr = &buf
			runErr := cmd.Run()
			ended := false
			for _, ev := range splitRaceOutput(buf.Bytes()) {
				switch {
				case strings.HasPrefix(ev.Marker, "STRESS") && strings.Contains(ev.Marker, " END "):
					ended = true
					var n, p int
					if i := strings.Index(ev.Marker, "requests="); i >= 0 {
						fmt.Sscanf(ev.Marker[i:], "requests=%d panics=%d", &n, &p)
					}
					requests += n
				case strings.HasPrefix(ev.Marker, "PANIC"):
					msg := strings.TrimPrefix(ev.Marker, "PANIC ")
					if len(msg) > 60 {
						msg = msg[:60]
					}
					if !seen["panic"] {
						seen["panic"] = true
						out.Add(Case{Coq: fmt.Sprintf("KStress %s %s %s", Q(r.name), Q("PANIC"), Q(msg)),
							Replay: c19Replay{Kind: "stress", Stress: &c19Stress{Config: r.name, Site1: "PANIC", Site2: msg}}, NonTrivial: true, Key: "stress|" + r.name + "|panic"})
						out.Count("stress-panic")
					}
				case strings.HasPrefix(ev.Marker, "DEADLOCK"):
					// the watchdog of the child fired: no request finished for a long time
					if !seen["deadlock"] {
						seen["deadlock"] = true
						out.Add(Case{Coq: fmt.Sprintf("KStress %s %s %s", Q(r.name), Q("DEADLOCK"), Q("no request made progress (watchdog)")),
							Replay: c19Replay{Kind: "stress", Stress: &c19Stress{Config: r.name, Site1: "DEADLOCK", Site2: ev.Marker}}, NonTrivial: true, Key: "stress|" + r.name + "|deadlock"})
						out.Count("stress-deadlock")
					}
					ended = true
				case ev.Fatal != "":
					if !seen["fatal"] {
						seen["fatal"] = true
						msg := ev.Fatal
						if strings.Contains(msg, "concurrent map") {
							msg = "concurrent map access (runtime abort)"
						}
						out.Add(Case{Coq: fmt.Sprintf("KStress %s %s %s", Q(r.name), Q("FATAL"), Q(msg)),
							Replay: c19Replay{Kind: "stress", Stress: &c19Stress{Config: r.name, Site1: "FATAL", Site2: ev.Fatal}}, NonTrivial: true, Key: "stress|" + r.name + "|fatal"})
						out.Count("stress-fatal")
					}
					ended = true
				case ev.Report != nil:
					cl := []string{"?", "?"}
					for i := 0; i < 2 && i < len(ev.Report.Sites); i++ {
						cl[i] = raceClass(ev.Report.Sites[i])
					}
					if cl[0] == "?" { // a stack garbled by interleaved output: attribute it to the readable one
						cl[0] = cl[1]
					} else if cl[1] == "?" {
						cl[1] = cl[0]
					}
					sort.Strings(cl)
					k := cl[0] + "|" + cl[1]
					if seen[k] {
						continue
					}
					seen[k] = true
					out.Add(Case{Coq: fmt.Sprintf("KStress %s %s %s", Q(r.name), Q(cl[0]), Q(cl[1])),
						Replay:     c19Replay{Kind: "stress", Stress: &c19Stress{Config: r.name, Site1: strings.Join(ev.Report.Sites, " <-> "), Site2: k, Report: ev.Report.Text}},
						NonTrivial: true, Key: "stress|" + r.name + "|" + k})
					out.Count("stress-race")
				}
			}
			if seen["deadlock"] {
				break
			}
			if !ended {
				tail := buf.String()
				if len(tail) > 1500 {
					tail = tail[len(tail)-1500:]
				}
				t.Fatalf("C19 stress %s: child did not finish (%v)\n%s", r.name, runErr, tail)
			}
		}
		if len(seen) == 0 {
			out.Add(Case{Coq: fmt.Sprintf("KStressClean %s %d", Q(r.name), requests),
				Replay: c19Replay{Kind: "stress", Stress: &c19Stress{Config: r.name, N: requests}}, NonTrivial: true, Key: "stress|" + r.name + "|clean"})
			out.Count("stress-clean")
		}
		out.Notes["stress:"+r.name] = fmt.Sprintf("%d requests from %d goroutines x %d runs; distinct racing classes: %d", requests, gor, reps, len(seen))
	}
}
